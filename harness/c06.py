# C06 - typing verdicts do not depend on what was typed before.
# Code executed symbolically: StructuredRecord._get_regex (class-level pattern cache) from an
# arbitrary valid cache state, and block R on (ancestor, descendant) pairs after priming.
from .common import *
from .rblock import *
from .c02 import unique_at_zero

ID = "C06"
LEVEL_TEXT = ("The only cross-call state of the typing code is the compiled pattern cached on the class objects.  Histories are "
              "abstracted by the states they can reach: (1) inductive step: for every kit class K (and dynamically created "
              "subclasses), from an arbitrary valid cache state - one symbolic Boolean per structured class in K's MRO saying "
              "whether that class holds its own compiled pattern - the real _get_regex() must return K's own pattern and leave "
              "every class holding its own; (2) content: for (ancestor A, descendant K) pairs with different structures, after "
              "A has been queried through the public API, K's verdict, overhangs and target on a symbolic record equal the "
              "answers of a cleared cache, z3 producing the distinguishing record otherwise.  Bounded claim.")
LEVEL_NOTE = ("Bounds: (1) all catalogued classes, MRO depth as in the source; (2) 6 pairs quick / all pairs thorough, n = F+1, "
              "plus priming of classes outside the MRO (sibling, unrelated kit class, a second user class with the same "
              "__name__); "
              "record with a unique generic occurrence. Classes outside K's MRO cannot influence attribute lookup on K (Python "
              "semantics). In obligations (1)-(2) 'fresh interpreter' is represented by the cleared cache state; the fresh-interpreter obligations compare with one directly. Bio.Restriction's class-level scratch "
              "attributes are outside the model. Trusted: z3, CPython, symx models.")
LEVEL_NOTE_EXTRA = 'instance level: an entity of the same class is typed first and kept alive (same letters with other topology, or another plasmid under the same id) and the answers are compared with an independent twin class. Also: Cls.characterize on two identical just-declared types (asked first / after other validations); the same query in a fresh interpreter (fresh module copy per path / new process) after a history that includes a record declared linear, also asked twice with room for a further site.'
TECHNIQUE = "bounded symbolic execution of the real Python source (symx) with z3; inductive step over symbolic cache states + differential run primed vs cleared; replay on the real stack"
EXPLANATION = ("cache states are symbolic (one Boolean per class of the MRO); the content clause runs the real typing code twice "
               "on one symbolic record, with and without priming an ancestor")
ASSUMPTIONS = [
    "the only inter-call state is StructuredRecord._regex on class objects (read from the source; per-instance caches are "
    "exercised by asking twice)",
    "content clause: letters over ACGT, n = F+1, unique occurrence of the ancestor's (more general) structure at index 0",
]


def bounds(tier):
    return dict(pairs=tier_pick(tier, 6, "all"), mro="as in source")


def structured_mro(st, K):
    """classes of K's MRO that can hold a pattern of their own (concrete structure)"""
    out = []
    SR = st.structured.StructuredRecord
    for C in K.__mro__:
        if C is SR or not isinstance(C, type) or not issubclass(C, SR):
            continue
        try:
            s = C.structure()
        except Exception:
            continue
        if not isinstance(s, str):
            continue
        out.append(C)
    return out


def clear(classes):
    for C in classes:
        if "_regex" in C.__dict__:
            try:
                delattr(C, "_regex")
            except AttributeError:
                pass


def pattern_text(rx):
    p = getattr(rx, "pattern", None)
    if isinstance(p, str):
        return p
    inner = getattr(rx, "regex", None)
    return getattr(inner, "pattern", None)


def ob_state(ctx):
    st = ctx.stack
    P = ctx.P
    K = get_class(st, P) if P["src"] != "dyn" else dyn_class(st, P)
    mro = structured_mro(st, K)
    clear(mro)
    if not hasattr(K, "_get_regex") or "_regex" not in vars(st.structured.StructuredRecord):
        # the class-level cache is organised differently (refactored): its state cannot be constructed directly; the
        # behavioural obligations (content, foreign, instances) carry the property
        ctx.checked()
        return True
    try:
        primed = []
        for i, C in enumerate(mro):
            if ctx.mk.bool("primed_%d_%s" % (i, C.__name__)):
                C._regex = st.regex.DNARegex(C.structure())
                primed.append(C)
        got = K._get_regex()
        ctx.observe("pattern", pattern_text(got))
        if pattern_text(got) is None:
            # the pattern object cannot be introspected (refactored): the content obligations carry the property
            ctx.checked()
            return True
        ctx.require(pattern_text(got) == K.structure(), "class-uses-another-class's-pattern")
        for C in primed:
            own = C.__dict__.get("_regex")
            ctx.require(own is not None and pattern_text(own) == C.structure(), "primed-class-lost-its-pattern")
        again = K._get_regex()
        ctx.require(pattern_text(again) == K.structure(), "second-call-differs")
        ctx.witness("ancestor-primed", any(C is not K for C in primed))
        ctx.witness("nothing-primed", not primed)
    finally:
        clear(mro)
    return True


_DYN = {}


def dyn_class(st, P):
    key = (st.kind, P["kit"], P["cls"])
    c = _DYN.get(key)
    if c is None:
        base = kit_class(st, P["kit"], P["cls"])
        c = type(str("Dyn_" + P["cls"]), (base,), {"signature": ("ACGT", "TTGG")} if issubclass(base, st.parts.AbstractPart) else {})
        _DYN[key] = c
    return c


def pairs(st):
    out = []
    for kit, name, K, role, pat in catalog(st):
        for A in structured_mro(st, K)[1:]:
            try:
                if A.structure() != pat and not is_abstract(A):
                    out.append((kit, name, A.__name__, A.__module__.split(".")[-1]))
            except Exception:
                pass
    return out


def ob_content(ctx):
    st = ctx.stack
    P = ctx.P
    n = P["n"]
    K = kit_class(st, P["kit"], P["cls"])
    A = kit_class(st, P["akit"], P["anc"])
    mro = structured_mro(st, K)
    r = ctx.mk.seq("r", n, "ACGT")
    unique_at_zero(ctx, A.structure(), r, n)
    rec = st.record.CircularRecord(st.Seq(r), id="rec")

    def answers():
        k = K(rec)
        v = k.is_valid()
        if not v:
            return (False, None, None, None)
        return (True, k.overhang_start(), k.overhang_end(), k.target_sequence().seq)

    clear(mro)
    try:
        fresh = answers()
        clear(mro)
        prime = A(st.record.CircularRecord(st.Seq("ACGTACGT"), id="p"))
        prime.is_valid()
        after = answers()
        ctx.observe("fresh", fresh[0])
        ctx.observe("after", after[0])
        ctx.require(fresh[0] == after[0], "verdict-depends-on-history")
        ctx.witness("accepted" if fresh[0] else "rejected")
        if fresh[0]:
            for x, y, nm in zip(fresh[1:], after[1:], ("overhang_start", "overhang_end", "target")):
                ctx.require(seq_eq(x, y), nm + "-depends-on-history")
        # the other order: descendant first, then ancestor
        clear(mro)
        K(st.record.CircularRecord(st.Seq("ACGTACGT"), id="p")).is_valid()
        a2 = A(rec)
        clear(mro)
        a1 = A(rec)
        ctx.require(a1.is_valid() == a2.is_valid(), "ancestor-verdict-depends-on-history")
    finally:
        clear(mro)
    return True


def _foreign_pair(st, P):
    """(X, K): X is primed first, K is asked afterwards; X is not in K's MRO"""
    if P["pair"] == "same-name":
        # two distinct user classes that happen to share their __name__ (factory / loop idiom)
        key = (st.kind, "same-name")
        if key not in _DYN:
            base = (st.parts.AbstractPart, st.modules.Entry)
            X = type(str("CustomPart"), base, {"cutter": st.enzyme("BsaI"), "signature": ("ATGC", "ATTC")})
            K = type(str("CustomPart"), base, {"cutter": st.enzyme("BsaI"), "signature": ("GGAG", "CGCT")})
            _DYN[key] = (X, K)
        return _DYN[key]
    X = kit_class(st, P["xkit"], P["x"])
    K = kit_class(st, P["kit"], P["cls"])
    return X, K


def ob_foreign(ctx):
    """priming a class outside K's MRO (a sibling, an unrelated kit class, a same-named user class) changes nothing"""
    from .c05 import matches_sig

    st = ctx.stack
    P = ctx.P
    n = P["n"]
    X, K = _foreign_pair(st, P)
    G = generic_class(st, role_of(st, K), str(getattr(K.cutter, "real", K.cutter)))
    r = ctx.mk.seq("r", n, "ACGT")
    unique_at_zero(ctx, G.structure(), r, n)
    rec = st.record.CircularRecord(st.Seq(r), id="rec")
    allc = structured_mro(st, K) + structured_mro(st, X) + structured_mro(st, G)
    clear(allc)
    try:
        X(st.record.CircularRecord(st.Seq("ACGTACGT"), id="p")).is_valid()
        X(rec).is_valid()
        k = K(rec)
        vk = k.is_valid()
        ctx.observe("valid", vk)
        if hasattr(K, "_get_regex") and pattern_text(K._get_regex()) is not None:
            ctx.require(pattern_text(K._get_regex()) == K.structure(), "class-uses-another-class's-pattern")
        sig = getattr(K, "signature", NotImplemented)
        base = st.parts.AbstractPart.structure
        if sig is not NotImplemented and getattr(K.structure, "__func__", None) is getattr(base, "__func__", base):
            g = G(rec)
            vg = g.is_valid()
            want = And(matches_sig(g.overhang_start(), sig[0]), matches_sig(g.overhang_end(), sig[1])) if vg else False
            ctx.require(Iff(vk, want), "verdict-after-priming-a-foreign-class-differs-from-signature-semantics")
        ctx.witness("accepted" if vk else "rejected")
    finally:
        clear(allc)
    return True


def ob_instances(ctx):
    """typing a record while another typed entity of the same class (same letters, other topology / other object) is
    alive gives the answer an independent twin class gives"""
    st = ctx.stack
    P = ctx.P
    n = P["n"]
    K = kit_class(st, P["kit"], P["cls"])
    key = (st.kind, "twin", P["kit"], P["cls"])
    if key not in _DYN:
        _DYN[key] = type(str("Twin_" + P["cls"]), (K,), {})
    Twin = _DYN[key]
    r = ctx.mk.seq("r", n, "ACGT")
    if P["first"] == "same-id":
        # two different plasmids filed under one accession (a revised sequence), both wrapped by the same class
        r2 = ctx.mk.seq("r2", n + 1, "ACGT")
        # the first plasmid is a fixed instance of the class's structure (keeps the obligation to one symbolic search)
        inst = "".join("A" if ch == "N" else ch for ch in K.structure() if ch not in "()*?")
        r = (inst + "T" * n)[:n]
        circ = st.record.CircularRecord(st.Seq(r), id="ACC0001")
        lin = None
        order = [circ, st.record.CircularRecord(st.Seq(r2), id="ACC0001")]
    else:
        circ = st.record.CircularRecord(st.Seq(r), id="circ")
        lin = st.SeqRecord(st.Seq(r), id="lin", annotations={"topology": "linear"})
        order = [circ, lin] if P["first"] == "circular" else [lin, circ]
    alive = []
    for rec in order:
        e = K(rec)
        alive.append(e)
        v = e.is_valid()
        t = Twin(rec)
        vt = t.is_valid()
        ctx.observe("valid", [v, vt])
        ctx.require(v == vt, "verdict-depends-on-an-earlier-entity")
        if v:
            ctx.require(seq_eq(e.overhang_start(), t.overhang_start()) and True, "overhang-depends-on-an-earlier-entity")
            if rec is not lin:  # fragment extraction is only defined for circular records (`<<`); linear ones are outside
                ctx.require(seq_eq(e.target_sequence().seq, t.target_sequence().seq), "target-depends-on-an-earlier-entity")
            ctx.witness("accepted-" + ("linear" if rec is lin else "circular"))
            ctx.witness("second-entity-accepted", rec is order[1])
    again = K(order[0])
    ctx.require(again.is_valid() == alive[0].is_valid(), "same-record-typed-twice-differs")
    return True


_FRESH_QUERY = r'''
import sys, json, warnings
warnings.filterwarnings("ignore")
sys.path.insert(0, "/verif")
from symx import loader
st = loader.real_stack()
q = json.loads(sys.argv[1])
K = getattr(st.kit(q["kit"]), q["cls"])
rec = (st.record.CircularRecord if q["kind"] == "circular" else st.SeqRecord)(st.Seq(q["seq"]), id="rec")
e = K(rec)
out = {"valid": bool(e.is_valid())}
if out["valid"]:
    out["start"], out["end"] = str(e.overhang_start()), str(e.overhang_end())
print("RESULT " + json.dumps(out))
'''


def _fresh_answer(ctx, P, data, kind):
    """the same query asked first thing in a fresh interpreter: on the symbolic stack a freshly loaded copy of the
    repository's modules (new class objects, pristine class-level state); on the real stack a new Python process"""
    st = ctx.stack
    if st.kind == "sym":
        from symx import loader

        st2 = loader.sym_stack(fresh=True)
        K2 = kit_class(st2, P["kit"], P["cls"])
        rec2 = (st2.record.CircularRecord if kind == "circular" else st2.SeqRecord)(st2.Seq(data), id="rec")
        e2 = K2(rec2)
        v2 = e2.is_valid()
        return (v2, e2.overhang_start(), e2.overhang_end()) if v2 else (v2, None, None)
    import json
    import os
    import subprocess
    import sys as _sys

    q = json.dumps(dict(kit=P["kit"], cls=P["cls"], kind=kind, seq=str(data)))
    r = subprocess.run([_sys.executable, "-c", _FRESH_QUERY, q], capture_output=True, text=True, timeout=120,
                       env=dict(os.environ, PYTHONHASHSEED="0"))
    line = [l for l in r.stdout.splitlines() if l.startswith("RESULT ")]
    if not line:
        raise RuntimeError("fresh interpreter query failed: " + r.stderr[-400:])
    out = json.loads(line[0][7:])
    return out["valid"], out.get("start"), out.get("end")


def _further_site(st, ent):
    try:
        ent._match
    except st.errors.IllegalSite:
        return True
    except st.errors.InvalidSequence:
        return False
    return False


def ob_fresh_interpreter(ctx):
    """after other records (among them one declared linear) have been validated against the class and its relatives,
    the class answers a query exactly as a fresh interpreter does"""
    st = ctx.stack
    P = ctx.P
    n = P["n"]
    K = kit_class(st, P["kit"], P["cls"])
    inst = concrete_instance(K.structure(), n)
    # history: a linear record, a circular one, a junk one, against the class and against its bases
    for C in [K] + [B for B in K.__mro__[1:4] if hasattr(B, "structure") and not is_abstract(B)]:
        for hist in (st.SeqRecord(st.Seq(inst), id="h-lin", annotations={"topology": "linear"}),
                     st.record.CircularRecord(st.Seq(inst[3:] + inst[:3]), id="h-circ"),
                     st.SeqRecord(st.Seq("ACGT" * 5), id="h-junk")):
            try:
                C(hist).is_valid()
            except Exception:
                pass
    r = ctx.mk.seq("r", n, "ACGT")
    kind = P["kind"]
    rec = (st.record.CircularRecord if kind == "circular" else st.SeqRecord)(st.Seq(r), id="rec")
    e = K(rec)
    v = e.is_valid()
    ctx.observe("valid", v)
    v2, s2, e2 = _fresh_answer(ctx, P, r, kind)
    ctx.require(v == v2, "verdict-differs-from-a-fresh-interpreter")
    if P.get("twice"):
        # the entity's own first answer is history too: asked again, it still answers as a fresh interpreter does
        ctx.require(e.is_valid() == v2, "second-verdict-of-the-same-entity-differs-from-a-fresh-interpreter")
        if not v2:
            for acc in ("overhang_start", "overhang_end", "target_sequence"):
                try:
                    getattr(e, acc)()
                    ok = False
                except st.errors.InvalidSequence:
                    ok = True
                ctx.require(ok, "rejected-record-answers-" + acc + "-on-the-second-ask")
            ctx.witness("rejected-for-a-further-site", _further_site(st, e))
    ctx.witness("accepted" if v else "rejected")
    if v:
        ctx.require(seq_eq(e.overhang_start(), s2) and True, "overhang_start-differs-from-a-fresh-interpreter")
        ctx.require(seq_eq(e.overhang_end(), e2), "overhang_end-differs-from-a-fresh-interpreter")
        ctx.witness("match-wraps-origin", ival(e._match.end()) > n)
    return True


def ob_entry_point(ctx):
    """the kit-level entry point Cls.characterize(record) on a concrete type answers the same whether the type is asked
    first thing or after it has validated other records (two identical types declared in this very call, one per history)"""
    st = ctx.stack
    P = ctx.P
    n = P["n"]
    base = st.modules.Entry if P["role"] == "module" else st.vectors.EntryVector

    def declare(nm):
        return type(str(nm), (st.parts.AbstractPart, base), {"cutter": st.enzyme(P["enzyme"]), "signature": tuple(P["sig"])})

    A, B = declare("AskedFirst"), declare("UsedBefore")
    ctx.keep = [A, B]
    junk = st.record.CircularRecord(st.Seq("ACGT" * 6), id="junk")
    good = st.record.CircularRecord(st.Seq(concrete_instance(generic_class(st, P["role"], P["enzyme"]).structure(), n)), id="good")
    B(junk).is_valid()
    B(good).is_valid()
    r = ctx.mk.seq("r", n, "ACGT")
    rec = st.record.CircularRecord(st.Seq(r), id="rec")
    outs = []
    for K in (A, B):
        try:
            outs.append(K.characterize(rec))
        except RuntimeError:
            outs.append(None)
    a, b = outs
    ctx.observe("typed", [a is not None, b is not None])
    ctx.require((a is None) == (b is None), "characterize-verdict-depends-on-earlier-use-of-the-type")
    ctx.witness("typed" if a is not None else "untyped")
    if a is not None:
        ctx.require(seq_eq(a.overhang_start(), b.overhang_start()) and True, "overhang-depends-on-earlier-use")
        ctx.require(seq_eq(a.target_sequence().seq, b.target_sequence().seq), "target-depends-on-earlier-use")
        # and it agrees with plain validation by a third, unused twin
        ctx.require(declare("Plain")(rec).is_valid() is True, "characterize-accepts-what-validation-rejects")
    return True


def obligations(tier, seed):
    from symx import loader

    st = loader.real_stack()
    obs = []
    for kit, name, K, role, pat in catalog(st):
        obs.append(Ob("cache state %s.%s" % (kit, name), ob_state, dict(src="kit", kit=kit, cls=name), samples=3, cost=2,
                      group="state"))
    for kit, name in (("ytk", "YTKPart1"), ("cidar", "CIDAREntry"), ("ecoflex", "EcoFlexPromoter"), ("ytk", "YTKPart8")):
        obs.append(Ob("cache state subclass of %s.%s created at run time" % (kit, name), ob_state,
                      dict(src="dyn", kit=kit, cls=name), samples=3, cost=2, group="state"))
    foreign = [dict(pair="same-name"), dict(pair="kit", xkit="ytk", x="YTKPart2", kit="ytk", cls="YTKPart1"),
               dict(pair="kit", xkit="cidar", x="CIDARPromoter", kit="ytk", cls="YTKPart1"),
               dict(pair="kit", xkit="ytk", x="YTKPart8", kit="ytk", cls="YTKPart8a")]
    if tier != "quick":
        foreign += [dict(pair="kit", xkit="moclo", x="MoCloPro", kit="plant", cls="PlantPro5U"),
                    dict(pair="kit", xkit="ecoflex", x="EcoFlexRBS", kit="ecoflex", cls="EcoFlexTag")]
    for f in foreign:
        nm = "same-named user classes" if f["pair"] == "same-name" else "%s.%s after %s.%s" % (f["kit"], f["cls"], f["xkit"], f["x"])
        obs.append(Ob("foreign priming: " + nm, ob_foreign, dict(f, n=25), samples=4, cost=25 ** 3, group="foreign"))
    for kit, name in ([("ytk", "YTKPart1")] if tier == "quick" else [("ytk", "YTKPart1"), ("ytk", "YTKEntry"), ("cidar", "CIDARCassetteVector")]):
        F = fixed_letters(kit_class(st, kit, name).structure())
        for first in ("circular", "linear", "same-id"):
            obs.append(Ob("instances %s.%s n=%d typed %s first" % (kit, name, F + 1, first), ob_instances,
                          dict(kit=kit, cls=name, n=F + 1, first=first), samples=4, cost=3 * (F + 1) ** 3, group="instances",
                          expect_witness=("accepted-circular",)))
    for kit, name in tier_pick(tier, [("ytk", "YTKPart1")], [("ytk", "YTKPart1"), ("cidar", "CIDAREntry"), ("ytk", "YTKEntryVector")]):
        F = fixed_letters(kit_class(st, kit, name).structure())
        for kind in ("plain", "circular"):
            obs.append(Ob("%s.%s n=%d on a %s record, after other validations vs in a fresh interpreter" % (
                kit, name, F + 1, "plain SeqRecord (no topology annotation)" if kind == "plain" else "CircularRecord"),
                ob_fresh_interpreter, dict(kit=kit, cls=name, n=F + 1, kind=kind), samples=3, cost=3 * (F + 1) ** 3,
                group="fresh interpreter", expect_witness=("accepted", "rejected", "match-wraps-origin")))
    F = fixed_letters(kit_class(st, "ytk", "YTKPart1").structure())
    obs.append(Ob("ytk.YTKPart1 n=%d (room for a further site) on a CircularRecord record, asked twice vs in a fresh interpreter" % (F + 7),
                  ob_fresh_interpreter, dict(kit="ytk", cls="YTKPart1", n=F + 7, kind="circular", twice=True), samples=3,
                  cost=6 * (F + 7) ** 3, group="fresh interpreter",
                  expect_witness=("accepted", "rejected", "rejected-for-a-further-site")))
    for role, sig in tier_pick(tier, [("module", ("AATG", "NNNN"))], [("module", ("AATG", "NNNN")), ("vector", ("NNNN", "GCTT"))]):
        F = fixed_letters(generic_class(st, role, "BsaI").structure())
        obs.append(Ob("entry point characterize on a concrete %s type, asked first vs after other validations n=%d" % (role, F + 1),
                      ob_entry_point, dict(role=role, enzyme="BsaI", sig=list(sig), n=F + 1), samples=4, cost=2 * (F + 1) ** 3,
                      group="entry-point", expect_witness=("typed", "untyped")))
    ps = pairs(st)
    if tier == "quick":
        seen, pick = set(), []
        for p in ps:
            if (p[0], p[2]) not in seen:
                seen.add((p[0], p[2]))
                pick.append(p)
        ps = pick[:6]
    for kit, name, anc, akit in ps:
        F = max(fixed_letters(kit_class(st, kit, name).structure()), fixed_letters(kit_class(st, akit, anc).structure()))
        n = F + 1
        obs.append(Ob("content %s.%s after %s n=%d" % (kit, name, anc, n), ob_content,
                      dict(kit=kit, cls=name, anc=anc, akit=akit, n=n), samples=3, cost=n ** 3, group="content"))
    return obs
