# Helpers for the annotation-carrying harnesses (C07, C08, C09, C10): annotated template records,
# deep snapshots, and module/vector wrappers whose fragments are real slices of their records.
import warnings

from .common import *
from .wblock import run_assemble
from .c16 import FakeMatch


def make_ref(st, title, authors=None, span=None):
    r = st.Reference()
    r.title = title
    r.authors = ("A. " + title) if authors is None else authors
    r.journal = "J. " + r.authors
    if span is not None:
        # the stretch of the SOURCE record the reference is about (GenBank: "REFERENCE 1 (bases 1 to N)")
        r.location = [st.SimpleLocation(0, span)]
    return r


def snap_value(v):
    tn = type(v).__name__
    if tn == "Reference":
        return ("ref", v.title, v.authors, getattr(v, "journal", ""), getattr(v, "pubmed_id", ""),
                [snap_location(l) for l in getattr(v, "location", [])])
    if isinstance(v, (list, tuple)):
        return [snap_value(x) for x in v]
    if isinstance(v, dict):
        return {k: snap_value(x) for k, x in v.items()}
    return v


def snap_location(loc):
    if loc is None:
        return None
    return [(ival(p.start), ival(p.end), p.strand) for p in loc.parts]


def snapshot(rec):
    """deep, comparable image of a record (an absent reference list is equivalent to an empty one)"""
    ann = {k: snap_value(v) for k, v in rec.annotations.items()}
    ann.setdefault("references", [])
    feats = [(f.type, f.id, snap_location(f.location), {k: snap_value(v) for k, v in f.qualifiers.items()})
             for f in rec.features]
    return dict(seq=sdata(rec.seq), id=rec.id, name=rec.name, description=rec.description, features=feats,
                annotations=ann, dbxrefs=list(rec.dbxrefs),
                letter_annotations={k: v for k, v in rec.letter_annotations.items()})


def snap_equal(a, b):
    """polymorphic equality of two snapshots -> formula"""
    if isinstance(a, dict) and isinstance(b, dict):
        if set(a) != set(b):
            return False
        return And([snap_equal(a[k], b[k]) for k in a])
    if isinstance(a, (list, tuple)) and isinstance(b, (list, tuple)):
        if len(a) != len(b):
            return False
        return And([snap_equal(x, y) for x, y in zip(a, b)])
    if isinstance(a, (str, SSeq)) and isinstance(b, (str, SSeq)):
        return seq_eq(a, b)
    if a is None or b is None:
        return a is None and b is None
    return Eq(a, b)


def sliced_classes(st, enzyme="BsaI"):
    """module/vector classes whose overhangs are given and whose fragment is the real target_sequence()
    (real rotate-and-slice code) computed from a pre-set match with the given spans"""
    key = "_sliced_" + enzyme
    c = getattr(st, key, None)
    if c is not None:
        return c
    cutter = st.enzyme(enzyme)

    class SlicedModule(st.modules.AbstractModule):
        def __init__(self, record, start, end, spans, fail_at=None, fail_exc=None):
            super(SlicedModule, self).__init__(record)
            self._s, self._e = start, end
            self._match = st.regex.SeqMatch(FakeMatch(spans), record)
            self.fail_exc = fail_exc
            self.target_calls = 0

        def overhang_start(self):
            return self._s

        def overhang_end(self):
            return self._e

        def target_sequence(self):
            self.target_calls += 1
            if self.fail_exc is not None:
                raise self.fail_exc
            return super(SlicedModule, self).target_sequence()

    SlicedModule.cutter = cutter

    class SlicedVector(st.vectors.AbstractVector):
        def __init__(self, record, start, end, spans, fail_exc=None):
            super(SlicedVector, self).__init__(record)
            self._s, self._e = start, end
            self._match = st.regex.SeqMatch(FakeMatch(spans), record)
            self.fail_exc = fail_exc

        def overhang_start(self):
            return self._s

        def overhang_end(self):
            return self._e

        def target_sequence(self):
            if self.fail_exc is not None:
                raise self.fail_exc
            return super(SlicedVector, self).target_sequence()

    SlicedVector.cutter = cutter
    c = (SlicedModule, SlicedVector)
    setattr(st, key, c)
    return c


def module_spans(s1, e1, e2, e3):
    """spans of a module/vector match: group1 = [s1,e1), group2 = [e1,e2), group3 = [e2,e3)"""
    return {0: (s1, e3), 1: (s1, e1), 2: (e1, e2), 3: (e2, e3)}
