import sys

from .run import main

sys.exit(main())
