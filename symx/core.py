# symx core: path manager (Space), exploration loop, symbolic proxies (SInt, SBool, SSeq) and the
# polymorphic formula helpers used by harnesses.  Re-execution symbolic execution: the harness is
# run once per feasible path; every branch on a symbolic condition is decided by z3.
import time
import z3

# ------------------------------------------------------------------------------------------------
# control-flow exceptions (BaseException so that `except Exception` in analysed code cannot eat them)


class Abort(BaseException):
    """current path is infeasible / outside the assumed domain"""


class Unsupported(BaseException):
    """the code under analysis used an operation the models do not implement"""


class Inconclusive(BaseException):
    """the solver answered unknown / ran out of budget"""


class AssertViolated(BaseException):
    """a mid-path assertion has a satisfying counter-model (carried in .model)"""

    def __init__(self, label, model):
        BaseException.__init__(self, label)
        self.label = label
        self.model = model


# ------------------------------------------------------------------------------------------------


MAX_DEPTH = 4000


class Space:
    cur = None
    fork_hook = None  # optional callable(cond) for the parametricity guard
    capture = None  # dict(queries=[], limit=k, every=m, seen=0): discharged assertions exported for a second solver

    def __init__(self, timeout_ms=30000, seed=0):
        self.solver = z3.Solver()
        self.solver.set("timeout", timeout_ms)
        if seed:
            self.solver.set("random_seed", seed & 0x7FFFFFFF)
        self.prefix = []  # list of (decision, payload, model) to replay
        self.trace = []  # [decision, other_side_pending, payload, other_model]
        self.queries = 0
        self.solver_s = 0.0
        self.fresh = 0
        self.model = None  # a model of the current path condition, when known
        self.notes = {}  # harness scratch (witness flags etc.)
        self.witness = set()
        self.inputs = {}  # name -> symbolic input (for concretisation)
        self.letter_terms = set()  # ids of letter atoms (parametricity guard)
        self.deadline = None

    # -- solver plumbing
    def _check(self, *extra):
        if self.deadline is not None and time.time() > self.deadline:
            raise Inconclusive("wall budget exhausted")
        t = time.time()
        self.queries += 1
        r = self.solver.check(*extra)
        self.solver_s += time.time() - t
        r = str(r)
        if r == "unknown":
            raise Inconclusive("solver unknown: %s" % self.solver.reason_unknown())
        return r

    def add(self, *conds):
        for c in conds:
            if isinstance(c, SBool):
                c = c.e
            if c is True:
                continue
            if c is False:
                raise Abort()
            self.solver.add(c)
            if self.model is not None:
                try:
                    if not z3.is_true(self.model.eval(c, model_completion=True)):
                        self.model = None
                except z3.Z3Exception:
                    self.model = None

    def assume(self, cond):
        """restrict the path to cond; abort when that is infeasible"""
        if isinstance(cond, SBool):
            cond = cond.e
        if cond is True:
            return
        if cond is False:
            raise Abort()
        self.add(cond)
        if len(self.trace) >= len(self.prefix) and self.model is None:
            # keep the invariant "pc is satisfiable" (cheap: only when no model survived)
            if self._check() != "sat":
                raise Abort()
            self.model = self.solver.model()

    def get_model(self):
        if self.model is None:
            if self._check() != "sat":
                raise Abort()
            self.model = self.solver.model()
        return self.model

    def fork(self, cond):
        if isinstance(cond, SBool):
            cond = cond.e
        if cond is True or cond is False:
            return cond
        cond = z3.simplify(cond)
        if z3.is_true(cond):
            return True
        if z3.is_false(cond):
            return False
        if Space.fork_hook is not None:
            Space.fork_hook(self, cond)
        depth = len(self.trace)
        if depth > MAX_DEPTH:
            raise Inconclusive("path deeper than %d decisions (non-terminating loop?)" % MAX_DEPTH)
        if depth < len(self.prefix):
            d, payload, mdl = self.prefix[depth]
            self.trace.append([d, False, payload, None])
            self.solver.add(cond if d else z3.Not(cond))
            if depth == len(self.prefix) - 1:
                self.model = mdl  # model stashed when the other side was proved feasible
            return d
        m = self.get_model()
        v = m.eval(cond, model_completion=True)
        d = bool(z3.is_true(v))
        other = z3.Not(cond) if d else cond
        r = self._check(other)
        if r == "sat":
            om = self.solver.model()
            self.trace.append([d, True, None, om])
        else:
            self.trace.append([d, False, None, None])
        self.solver.add(cond if d else z3.Not(cond))
        return d

    def realize(self, e):
        """concretise an integer term by forking over its feasible values"""
        if isinstance(e, SInt):
            e = e.e
        if isinstance(e, int):
            return e
        e = z3.simplify(e)
        if z3.is_int_value(e):
            return e.as_long()
        while True:
            depth = len(self.trace)
            if depth < len(self.prefix):
                d, payload, mdl = self.prefix[depth]
                v = payload
                self.trace.append([d, False, v, None])
                self.solver.add((e == v) if d else (e != v))
                if depth == len(self.prefix) - 1:
                    self.model = mdl
                if d:
                    return v
                continue
            m = self.get_model()
            v = m.eval(e, model_completion=True).as_long()
            r = self._check(e != v)
            if r == "sat":
                self.trace.append([True, True, v, self.solver.model()])
            else:
                self.trace.append([True, False, v, None])
            self.solver.add(e == v)
            return v

    def var(self, name, sort=None):
        self.fresh += 1
        return z3.Const("%s!%d" % (name, self.fresh), sort or z3.IntSort())

    def check_assert(self, cond, label="assert"):
        """mid-path assertion: cond must hold on every model of the path condition"""
        if isinstance(cond, SBool):
            cond = cond.e
        if cond is True:
            return
        if cond is False:
            raise AssertViolated(label, self.get_model())
        r = self._check(z3.Not(cond))
        if r == "sat":
            raise AssertViolated(label, self.solver.model())
        self.notes["last_assert"] = (label, cond)
        cap = Space.capture
        if cap is not None and len(cap["queries"]) < cap["limit"] and not z3.is_true(z3.simplify(cond)):
            cap["seen"] += 1
            if cap["seen"] % cap["every"] == 0:
                tmp = z3.Solver()
                tmp.add(self.solver.assertions())
                tmp.add(z3.Not(cond))
                cap["queries"].append((label, tmp.to_smt2()))
        self.solver.add(cond)

    def hit(self, name):
        self.witness.add(name)


def S():
    sp = Space.cur
    if sp is None:
        raise RuntimeError("symbolic value used outside a Space")
    return sp


class PathResult:
    __slots__ = ("kind", "ok", "exc", "model", "space", "label", "decisions")

    def __init__(self, kind, space, ok=None, exc=None, model=None, label=None):
        self.kind = kind  # 'ok' | 'cex' | 'exception' | 'unsupported' | 'abort'
        self.space = space
        self.ok = ok
        self.exc = exc
        self.model = model
        self.label = label
        self.decisions = [bool(t[0]) for t in space.trace]


def explore(fn, on_path, timeout_ms=30000, max_paths=200000, deadline=None, seed=0, stats=None):
    """Run fn(space) once per feasible path, depth first.  fn returns a polymorphic Bool `ok`
    (True / SBool / z3 Bool).  on_path(PathResult) is called for every finished path and returns
    True to stop the exploration.  Returns aggregate statistics."""
    stack = []  # [decision, other_pending, payload, other_model]
    if stats is None:
        stats = {}
    stats.update(paths=0, aborted=0, queries=0, solver_s=0.0, cex=0, exceptions=0, unsupported=0,
                 truncated=False, witnesses=set(), nontrivial=0, max_depth=0)
    first = True
    while first or stack:
        first = False
        sp = Space(timeout_ms, seed)
        sp.deadline = deadline
        sp.prefix = [(s[0], s[2], s[3]) for s in stack]
        Space.cur = sp
        res = None
        try:
            try:
                ok = fn(sp)
                if isinstance(ok, SBool):
                    ok = ok.e
                if ok is True or (z3.is_expr(ok) and z3.is_true(z3.simplify(ok))):
                    res = PathResult("ok", sp)
                elif ok is False:
                    res = PathResult("cex", sp, model=sp.get_model(), label="final")
                else:
                    r = sp._check(z3.Not(ok))
                    if r == "sat":
                        res = PathResult("cex", sp, model=sp.solver.model(), label="final")
                    else:
                        res = PathResult("ok", sp)
            except AssertViolated as av:
                res = PathResult("cex", sp, model=av.model, label=av.label)
            except Abort:
                res = PathResult("abort", sp)
            except Unsupported as u:
                try:
                    mdl = sp.get_model()
                except Abort:
                    mdl = None
                res = PathResult("abort" if mdl is None else "unsupported", sp, exc=u, model=mdl)
            except Exception as e:  # an exception escaping the harness = escaping the code under test
                try:
                    mdl = sp.get_model()
                    res = PathResult("exception", sp, exc=e, model=mdl)
                except Abort:
                    res = PathResult("abort", sp)
        finally:
            Space.cur = None
        stats["queries"] += sp.queries
        stats["solver_s"] += sp.solver_s
        stats["witnesses"] |= sp.witness
        stats["max_depth"] = max(stats["max_depth"], len(sp.trace))
        if res.kind == "abort":
            stats["aborted"] += 1
        else:
            stats["paths"] += 1
            if len(sp.trace) > 0 or sp.queries > 0:
                stats["nontrivial"] += 1
            if res.kind == "cex":
                stats["cex"] += 1
            elif res.kind == "exception":
                stats["exceptions"] += 1
            elif res.kind == "unsupported":
                stats["unsupported"] += 1
        stop = on_path(res)
        if stop:
            break
        new = sp.trace[len(stack):]
        stack = stack + [list(t) for t in new]
        while stack and not stack[-1][1]:
            stack.pop()
        if stack:
            top = stack[-1]
            if top[2] is not None:  # a realize() decision: flip to "value excluded"
                stack[-1] = [False, False, top[2], top[3]]
            else:
                stack[-1] = [not top[0], False, None, top[3]]
        if stats["paths"] + stats["aborted"] >= max_paths:
            stats["truncated"] = True
            break
    return stats


# ------------------------------------------------------------------------------------------------
# proxies


_INTVALS = {}


def ival_z3(v):
    r = _INTVALS.get(v)
    if r is None:
        r = z3.IntVal(v)
        if -4096 <= v <= 65536:
            _INTVALS[v] = r
    return r


def tz(x):
    """python/proxy integer -> z3 term"""
    if isinstance(x, SInt):
        return x.e
    if isinstance(x, bool):
        return ival_z3(int(x))
    if isinstance(x, int):
        return ival_z3(int(x))
    if isinstance(x, SBool):
        return z3.If(x.e, z3.IntVal(1), z3.IntVal(0))
    if z3.is_expr(x):
        return x
    raise TypeError("not an integer-like value: %r" % type(x))


def tb(x):
    """python/proxy boolean -> z3 term"""
    if isinstance(x, SBool):
        return x.e
    if isinstance(x, bool):
        return z3.BoolVal(x)
    if z3.is_expr(x):
        return x
    if isinstance(x, SInt):
        return x.e != 0
    if isinstance(x, int):
        return z3.BoolVal(x != 0)
    if x is None:
        return z3.BoolVal(False)
    raise TypeError("not a boolean-like value: %r" % type(x))


def mkint(e):
    e = z3.simplify(e)
    if z3.is_int_value(e):
        return e.as_long()
    return SInt(e)


def mkbool(e):
    e = z3.simplify(e)
    if z3.is_true(e):
        return True
    if z3.is_false(e):
        return False
    return SBool(e)


def is_sym(x):
    return isinstance(x, (SInt, SBool, SSeq)) or z3.is_expr(x)


class SBool:
    __slots__ = ("e",)

    def __init__(self, e):
        self.e = e

    def __bool__(self):
        return S().fork(self.e)

    def __eq__(self, o):
        if isinstance(o, (bool, SBool)):
            return mkbool(self.e == tb(o))
        if isinstance(o, (int, SInt)):
            return mkbool(tz(self) == tz(o))
        return False

    def __ne__(self, o):
        r = self.__eq__(o)
        return Not(r)

    def __hash__(self):
        return 1

    def __and__(self, o):
        return And(self, o)

    __rand__ = __and__

    def __or__(self, o):
        return Or(self, o)

    __ror__ = __or__

    def __invert__(self):
        return Not(self)

    def __deepcopy__(self, memo):
        return self

    def __copy__(self):
        return self

    def __repr__(self):
        return "SBool(%s)" % self.e


def And(*xs):
    if len(xs) == 1 and isinstance(xs[0], (list, tuple)):
        xs = xs[0]
    out = []
    for x in xs:
        if x is True:
            continue
        if x is False:
            return False
        if isinstance(x, SBool):
            out.append(x.e)
        elif z3.is_expr(x):
            out.append(x)
        elif not x:
            return False
    if not out:
        return True
    return mkbool(z3.And(out)) if len(out) > 1 else mkbool(out[0])


def Or(*xs):
    if len(xs) == 1 and isinstance(xs[0], (list, tuple)):
        xs = xs[0]
    out = []
    for x in xs:
        if x is False:
            continue
        if x is True:
            return True
        if isinstance(x, SBool):
            out.append(x.e)
        elif z3.is_expr(x):
            out.append(x)
        elif x:
            return True
    if not out:
        return False
    return mkbool(z3.Or(out)) if len(out) > 1 else mkbool(out[0])


def Not(x):
    if x is True:
        return False
    if x is False:
        return True
    if isinstance(x, SBool):
        return mkbool(z3.Not(x.e))
    if z3.is_expr(x):
        return mkbool(z3.Not(x))
    return not x


def Implies(a, b):
    return Or(Not(a), b)


def Iff(a, b):
    if isinstance(a, bool) and isinstance(b, bool):
        return a == b
    return mkbool(tb(a) == tb(b))


def If(c, a, b):
    if c is True:
        return a
    if c is False:
        return b
    ce = tb(c)
    if isinstance(a, (bool, SBool)) and isinstance(b, (bool, SBool)):
        return mkbool(z3.If(ce, tb(a), tb(b)))
    if isinstance(a, SLetter) or isinstance(b, SLetter):
        pa, pb = _letter_parts(a), _letter_parts(b)
        if pa is not None and pb is not None:
            return mkletter(mkint(z3.If(ce, tz(pa[0]), tz(pb[0]))), mkint(z3.If(ce, tz(pa[1]), tz(pb[1]))))
    return mkint(z3.If(ce, tz(a), tz(b)))


def Sum(xs):
    xs = list(xs)
    if not xs:
        return 0
    if all(isinstance(x, int) for x in xs):
        return sum(xs)
    return mkint(z3.Sum([tz(x) for x in xs]))


def Count(bs):
    return Sum([If(b, 1, 0) for b in bs])


def Eq(a, b):
    """polymorphic equality returning a formula (never forks)"""
    if isinstance(a, (SInt, SBool, SSeq)):
        return a.__eq__(b)
    if isinstance(b, (SInt, SBool, SSeq)):
        return b.__eq__(a)
    return a == b


def Min(a, b):
    return If(a <= b, a, b)


def Max(a, b):
    return If(a >= b, a, b)


def pmod(a, c):
    """python a % c for concrete non-zero c"""
    if isinstance(a, int):
        return a % c
    if c > 0:
        return mkint(a.e % c)
    return mkint(-((-a.e) % (-c)))


def pdiv(a, c):
    if isinstance(a, int):
        return a // c
    if c > 0:
        return mkint(a.e / c)
    return mkint((-a.e) / (-c))


class SInt:
    __slots__ = ("e",)

    def __init__(self, e):
        self.e = e

    def __add__(s, o):
        if not isinstance(o, (int, SInt, SBool)):
            return NotImplemented
        return mkint(s.e + tz(o))

    __radd__ = __add__

    def __sub__(s, o):
        if not isinstance(o, (int, SInt, SBool)):
            return NotImplemented
        return mkint(s.e - tz(o))

    def __rsub__(s, o):
        if not isinstance(o, (int, SInt, SBool)):
            return NotImplemented
        return mkint(tz(o) - s.e)

    def __neg__(s):
        return mkint(-s.e)

    def __pos__(s):
        return s

    def __abs__(s):
        return mkint(z3.If(s.e < 0, -s.e, s.e))

    def __mul__(s, o):
        if isinstance(o, SInt):
            o = S().realize(o)
        if isinstance(o, int):
            return mkint(s.e * int(o))
        return NotImplemented  # e.g. sequence repetition handled by the sequence's __rmul__

    __rmul__ = __mul__

    def _divisor(s, o):
        if isinstance(o, SInt):
            o = S().realize(o)
        if not isinstance(o, int):
            raise TypeError("unsupported operand for integer division")
        if o == 0:
            raise ZeroDivisionError("integer division or modulo by zero")
        return int(o)

    def __mod__(s, o):
        if not isinstance(o, (int, SInt)):
            return NotImplemented
        return pmod(s, s._divisor(o))

    def __rmod__(s, o):
        if not isinstance(o, int):
            return NotImplemented
        return o % s._divisor(s)

    def __floordiv__(s, o):
        if not isinstance(o, (int, SInt)):
            return NotImplemented
        return pdiv(s, s._divisor(o))

    def __rfloordiv__(s, o):
        if not isinstance(o, int):
            return NotImplemented
        return o // s._divisor(s)

    def __divmod__(s, o):
        c = s._divisor(o)
        return pdiv(s, c), pmod(s, c)

    def __eq__(s, o):
        if isinstance(o, (int, SInt, SBool)):
            return mkbool(s.e == tz(o))
        return False

    def __ne__(s, o):
        if isinstance(o, (int, SInt, SBool)):
            return mkbool(s.e != tz(o))
        return True

    def __lt__(s, o):
        if not isinstance(o, (int, SInt, SBool)):
            return NotImplemented
        return mkbool(s.e < tz(o))

    def __le__(s, o):
        if not isinstance(o, (int, SInt, SBool)):
            return NotImplemented
        return mkbool(s.e <= tz(o))

    def __gt__(s, o):
        if not isinstance(o, (int, SInt, SBool)):
            return NotImplemented
        return mkbool(s.e > tz(o))

    def __ge__(s, o):
        if not isinstance(o, (int, SInt, SBool)):
            return NotImplemented
        return mkbool(s.e >= tz(o))

    def __bool__(s):
        return S().fork(s.e != 0)

    def __hash__(s):
        return 0

    def __index__(s):
        return S().realize(s.e)

    __int__ = __index__

    def __deepcopy__(self, memo):
        return self

    def __copy__(self):
        return self

    def __repr__(s):
        return "SInt(%s)" % s.e

    def __format__(s, spec):
        return format(S().realize(s.e), spec)

    def __str__(s):
        return str(S().realize(s.e))


class SLetter(SInt):
    """a DNA letter code known as base (0..3 = ACGT) + 4 * case bit: lets the models see through case"""
    __slots__ = ("base", "case")

    def __init__(self, base, case):
        self.base = base  # int | SInt
        self.case = case  # int | SInt
        SInt.__init__(self, z3.simplify(tz(base) + 4 * tz(case)))


def _letter_parts(x):
    if isinstance(x, SLetter):
        return x.base, x.case
    if isinstance(x, int) and not isinstance(x, bool) and 0 <= x < 8:
        return x % 4, x // 4
    return None


def mkletter(base, case):
    if isinstance(base, int) and isinstance(case, int):
        return base + 4 * case
    return SLetter(base, case)


# ------------------------------------------------------------------------------------------------
# letters.  code = index in ALPH for the letters the properties talk about, 1000+ord otherwise.

IUPAC_OTHER = "NRYSWKMBDHV"
ALPH = "ACGT" + "acgt" + IUPAC_OTHER + IUPAC_OTHER.lower()
NALPH = len(ALPH)  # 30
ALPHABETS = {
    "ACGT": list(range(0, 4)),
    "ACGTacgt": list(range(0, 8)),
    "IUPAC": list(range(0, 4)) + list(range(8, 19)),
    "IUPACcase": list(range(0, NALPH)),
}


def code_of(ch):
    i = ALPH.find(ch)
    return i if i >= 0 else 1000 + ord(ch)


def char_of(code):
    if 0 <= code < NALPH:
        return ALPH[code]
    if code >= 1000:
        return chr(code - 1000)
    return "?"


def _mk_table(fn):
    t = {}
    for i, ch in enumerate(ALPH):
        j = code_of(fn(ch))
        if j != i:
            t[i] = j
    return t


_CASE_TABLES = {}
_UPPER = _mk_table(str.upper)
_LOWER = _mk_table(str.lower)
_COMP = None
_COMP_IS_MIRROR = False


def comp_table():
    global _COMP, _COMP_IS_MIRROR
    if _COMP is None:
        import Bio.Seq

        _COMP = _mk_table(lambda ch: str(Bio.Seq.Seq(ch).complement()))
        _COMP_IS_MIRROR = all(_COMP.get(k) == (3 - k % 4) + 4 * (k // 4) for k in range(8))
    return _COMP


_MAPC = {}


def map_code(c, table, generic, hint=None):
    """apply a finite letter map to a (possibly symbolic) code; generic(ch)->ch for concrete others;
    hint = set of codes the letter can take (None = unknown)"""
    if isinstance(c, int):
        if c in table:
            return table[c]
        if c >= 1000:
            return code_of(generic(chr(c - 1000)))
        return c
    if isinstance(c, SLetter):
        if table is _UPPER:
            return c.base
        if table is _LOWER:
            return c.base + 4
        if table is _COMP and _COMP_IS_MIRROR:
            return mkletter(3 - c.base, c.case)
    elif table is _COMP and _COMP_IS_MIRROR and hint is not None and all(0 <= k < 4 for k in hint):
        return mkint(3 - c.e)  # A<->T, C<->G on the 0..3 coding: keeps letter terms linear
    e = c.e
    keys = [k for k in table if hint is None or k in hint]
    if not keys:
        return c
    ck = (e.get_id(), id(table), tuple(keys))
    hit = _MAPC.get(ck)
    if hit is not None:
        return hit[0]
    r = e
    for k in keys:
        r = z3.If(e == k, z3.IntVal(table[k]), r)
    r = mkint(r)
    _MAPC[ck] = (r, e)
    return r


def map_hint(hint, table):
    if hint is None:
        return None
    return frozenset(table.get(k, k) for k in hint)


class SSeq:
    """bounded symbolic sequence of letter codes: length n (int | SInt), at(i) -> code (int | SInt)
    for 0 <= i < n, maxlen = python int upper bound of n.  Also used for per-letter tracks and
    short symbolic strings."""

    def __init__(self, n, at, maxlen, kind="str", hint=None):
        self.n = n
        self.at = at
        self.maxlen = maxlen
        self.kind = kind
        self.hint = hint  # frozenset of codes every letter is known to lie in, or None
        self._cache = {}

    # -- constructors
    @staticmethod
    def const(s):
        codes = [code_of(c) for c in s]
        return SSeq.of_codes(codes)

    @staticmethod
    def of_codes(codes):
        codes = list(codes)
        n = len(codes)

        def at(p):
            if isinstance(p, int):
                return codes[p] if 0 <= p < n else -1
            e = z3.IntVal(-1)
            pe = p.e
            for j in range(n - 1, -1, -1):
                e = z3.If(pe == j, tz(codes[j]), e)
            return mkint(e)

        return SSeq(n, at, n, hint=frozenset(c for c in codes if isinstance(c, int))
                    if all(isinstance(c, int) for c in codes) else None)

    @staticmethod
    def fresh(sp, name, n, maxlen=None, codes=None):
        """fresh symbolic letters; n may be int or SInt; codes = allowed letter codes"""
        maxlen = n if maxlen is None else maxlen
        f = z3.Function(name, z3.IntSort(), z3.IntSort())
        lo, hi = (min(codes), max(codes)) if codes else (None, None)
        dense = codes is not None and list(codes) == list(range(lo, hi + 1))
        for j in range(maxlen):
            fj = f(j)
            if codes is None:
                continue
            if dense:
                sp.add(fj >= lo, fj <= hi)
            else:
                sp.add(z3.Or([fj == c for c in codes]))

        def at(p):
            if isinstance(p, int):
                return SInt(f(p))
            return SInt(f(p.e))

        return SSeq(n, at, maxlen, hint=frozenset(codes) if codes else None)

    # -- helpers
    def get(self, p):
        """letter code at p (no bounds check)"""
        if isinstance(p, int):
            c = self._cache.get(p)
            if c is None:
                c = self.at(p)
                self._cache[p] = c
            return c
        return self.at(p)

    def __sym_len__(self):
        return self.n

    def __len__(self):
        return S().realize(self.n) if not isinstance(self.n, int) else self.n

    def __bool__(self):
        if isinstance(self.n, int):
            return self.n != 0
        return S().fork(self.n.e != 0)

    def _norm(self, i, default):
        if i is None:
            return default
        n = self.n
        if isinstance(i, int) and isinstance(n, int):
            if i < 0:
                i += n
                return 0 if i < 0 else i
            return n if i > n else i
        return If(i < 0, If(i + n < 0, 0, i + n), If(i > n, n, i))

    def __getitem__(self, idx):
        if isinstance(idx, slice):
            step = idx.step
            if step is None or (isinstance(step, int) and step == 1):
                a = self._norm(idx.start, 0)
                b = self._norm(idx.stop, self.n)
                ln = If(b > a, b - a, 0)
                base = self
                ml = self.maxlen if not isinstance(ln, int) else ln
                if isinstance(a, int) and a == 0:
                    return SSeq(ln, base.get, ml, self.kind, self.hint)
                return SSeq(ln, lambda p: base.get(a + p), ml, self.kind, self.hint)
            if isinstance(step, int) and step == -1 and idx.start is None and idx.stop is None:
                n = self.n
                base = self
                return SSeq(n, lambda p: base.get(n - 1 - p), self.maxlen, self.kind, self.hint)
            raise Unsupported("slice step %r on a symbolic sequence" % (step,))
        if isinstance(idx, (int, SInt)):
            n = self.n
            if idx < 0:
                idx = idx + n
            if Or(idx < 0, idx >= n):
                raise IndexError("string index out of range")
            base = self
            return SSeq(1, lambda p: base.get(idx + p), 1, self.kind, self.hint)
        raise TypeError("indices must be integers or slices")

    def __iter__(self):
        i = 0
        while i < self.n:
            yield self[i]
            i += 1

    @staticmethod
    def lift(o):
        if isinstance(o, SSeq):
            return o
        if isinstance(o, str):
            return SSeq.const(o)
        if isinstance(o, (list, tuple)):
            return SSeq.of_codes(o)
        return None

    def __add__(self, o):
        b = SSeq.lift(o)
        if b is None:
            return NotImplemented
        a = self
        an = a.n
        if isinstance(an, int) and an == 0:
            return b
        if isinstance(b.n, int) and b.n == 0:
            return a

        def at(p):
            if isinstance(p, int) and isinstance(an, int):
                return a.get(p) if p < an else b.get(p - an)
            return If(p < an, a.get(p), b.get(p - an))

        hint = (a.hint | b.hint) if (a.hint is not None and b.hint is not None) else None
        return SSeq(an + b.n, at, a.maxlen + b.maxlen, a.kind, hint)

    def __radd__(self, o):
        b = SSeq.lift(o)
        if b is None:
            return NotImplemented
        return b + self

    def __mul__(self, k):
        if isinstance(k, SInt):
            k = S().realize(k)
        if not isinstance(k, int):
            return NotImplemented
        if k <= 0:
            return SSeq.const("")
        r = self
        for _ in range(k - 1):
            r = r + self
        return r

    __rmul__ = __mul__

    def eq_formula(self, o):
        o = SSeq.lift(o)
        if o is None:
            return False
        m = min(self.maxlen, o.maxlen)
        cs = [Eq(self.n, o.n)]
        if cs[0] is False:
            return False
        for j in range(m):
            cs.append(Implies(j < self.n, Eq(self.get(j), o.get(j))))
        if self.maxlen > m:
            cs.append(self.n <= m)
        if o.maxlen > m:
            cs.append(o.n <= m)
        return And(cs)

    def __eq__(self, o):
        if not isinstance(o, (SSeq, str, list, tuple)):
            return False
        return self.eq_formula(o)

    def __ne__(self, o):
        return Not(self.__eq__(o))

    def __hash__(self):
        return 0

    def contains_formula(self, q):
        q = SSeq.lift(q)
        alts = []
        for p in range(self.maxlen + 1):
            cs = [p + q.n <= self.n]
            for j in range(q.maxlen):
                if p + j >= self.maxlen:
                    cs.append(q.n <= j)
                    break
                cs.append(Implies(j < q.n, Eq(self.get(p + j), q.get(j))))
            alts.append(And(cs))
        return Or(alts)

    def __contains__(self, q):
        if isinstance(q, Seqlike):
            q = q._d
        if not isinstance(q, (SSeq, str)):
            raise TypeError("'in <string>' requires string as left operand")
        return bool(self.contains_formula(q))

    def mapped(self, table, generic):
        base = self
        hint = self.hint
        return SSeq(self.n, lambda p: map_code(base.get(p), table, generic, hint), self.maxlen,
                    self.kind, map_hint(hint, table))

    def _case_table(self, fn, default):
        # letters outside ALPH (codes >= 1000) are only known through the hint
        if self.hint is None or all(c < 1000 for c in self.hint):
            return default
        t = dict(default)
        for c in self.hint:
            if c >= 1000:
                d = code_of(fn(char_of(c)))
                if d != c:
                    t[c] = d
        key = (fn.__name__, frozenset(t.items()))
        return _CASE_TABLES.setdefault(key, t)

    def upper(self):
        return self.mapped(self._case_table(str.upper, _UPPER), str.upper)

    def lower(self):
        return self.mapped(self._case_table(str.lower, _LOWER), str.lower)

    def translate(self, table):
        """str.translate with a 1:1 table (as built by str.maketrans(a, b) or a dict ord -> ord | 1-letter str)"""
        def image(ch):
            t = table.get(ord(ch), ch) if hasattr(table, "get") else table[ord(ch)]
            if t is None:
                raise Unsupported("str.translate deleting letters of a symbolic string")
            if isinstance(t, int):
                t = chr(t)
            if not isinstance(t, str) or len(t) != 1:
                raise Unsupported("str.translate mapping a letter to %r on a symbolic string" % (t,))
            return t

        codes = dict()
        pool = set(range(len(ALPH))) | {c for c in (self.hint or ()) if c >= 1000}
        for c in pool:
            d = code_of(image(char_of(c)))
            if d != c:
                codes[c] = d
        key = ("translate", frozenset(codes.items()))
        return self.mapped(_CASE_TABLES.setdefault(key, codes), image)

    def complement(self):
        import Bio.Seq

        return self.mapped(comp_table(), lambda ch: str(Bio.Seq.Seq(ch).complement()))

    def revcomp(self):
        return self.complement()[::-1]

    def _window(self, start, end):
        if start is None and end is None:
            return self
        return self[slice(start, end)]

    def startswith(self, q, start=None, end=None):
        w = self._window(start, end)
        alts = []
        for one in (q if isinstance(q, tuple) else (q,)):
            one = SSeq.lift(one._d if isinstance(one, Seqlike) else one)
            if one is None:
                raise TypeError("startswith first arg must be str or a tuple of str")
            alts.append(And(one.n <= w.n, w[: one.n].eq_formula(one)))
        return bool(Or(alts))

    def endswith(self, q, start=None, end=None):
        w = self._window(start, end)
        alts = []
        for one in (q if isinstance(q, tuple) else (q,)):
            one = SSeq.lift(one._d if isinstance(one, Seqlike) else one)
            if one is None:
                raise TypeError("endswith first arg must be str or a tuple of str")
            alts.append(And(one.n <= w.n, w[w.n - one.n:].eq_formula(one)))
        return bool(Or(alts))

    def isupper(self):
        raise Unsupported("isupper on a symbolic string")

    def islower(self):
        raise Unsupported("islower on a symbolic string")

    def find(self, q, start=0):
        q = SSeq.lift(q)
        i = start
        while i + q.n <= self.n:
            if self[i: i + q.n].eq_formula(q):
                return i
            i += 1
        return -1

    def count(self, q):
        raise Unsupported("count on a symbolic sequence")

    def strip(self):
        raise Unsupported("strip on a symbolic sequence")

    def concretize(self, model):
        def ev(x):
            if isinstance(x, int):
                return x
            return model.eval(tz(x), model_completion=True).as_long()

        n = ev(self.n)
        return [ev(self.get(j)) for j in range(n)]

    def concretize_str(self, model):
        return "".join(char_of(c) for c in self.concretize(model))

    def __deepcopy__(self, memo):
        return self

    def __copy__(self):
        return self

    def __str__(self):
        return "<sym:%d>" % self.maxlen

    __repr__ = __str__

    def __format__(self, spec):
        return "<sym:%d>" % self.maxlen


class Seqlike:
    """marker base for model classes that wrap sequence data in ._d"""

    _d = None


# ------------------------------------------------------------------------------------------------
# uniform access to sequence data for oracles (works on str, SSeq, model Seq, real Bio Seq)


def sdata(x):
    """-> str | SSeq for anything sequence-like (str, SSeq, model Seq, Bio.Seq.Seq, records)"""
    if isinstance(x, (str, SSeq)):
        return x
    if isinstance(x, Seqlike):
        return x._d
    if hasattr(x, "seq") and not isinstance(x, (bytes,)):
        return sdata(x.seq)
    return str(x)


def slen(x):
    x = sdata(x)
    return x.n if isinstance(x, SSeq) else len(x)


def sat(x, j):
    """letter code at j (caller guarantees 0 <= j < len)"""
    x = sdata(x)
    if isinstance(x, SSeq):
        return x.get(j)
    if isinstance(j, int):
        return code_of(x[j]) if 0 <= j < len(x) else -1
    return SSeq.const(x).get(j)


def seq_eq(a, b):
    a = sdata(a)
    b = sdata(b)
    if isinstance(a, str) and isinstance(b, str):
        return a == b
    return SSeq.lift(a).eq_formula(b)


def supper_code(c, hint=None):
    return map_code(c, _UPPER, str.upper, hint)


def scomp_code(c, hint=None):
    import Bio.Seq

    return map_code(c, comp_table(), lambda ch: str(Bio.Seq.Seq(ch).complement()), hint)


def rc_codes(x):
    """reverse complement of sequence data of concrete length -> list of letter codes"""
    d = sdata(x)
    k = slen(d)
    hint = d.hint if isinstance(d, SSeq) else None
    return [scomp_code(sat(d, k - 1 - j), hint) for j in range(k)]
