# Differential validation of the library models against the real libraries, run by every check
# before its obligations (a disagreement is a harness error: nothing the check says is trusted).
#   re        : the SMT regex model (on concrete letter codes wrapped in an SSeq, i.e. through the very code path
#               used for symbolic subjects) vs CPython's re, for every structure pattern of /repo's kit classes, the
#               C16 shape family and generic enzyme patterns; random and exhaustive short subjects
#   catalyse  : the fragment-count model vs Bio.Restriction's catalyse on random sequences with planted sites
#   records   : model SeqRecord/SeqFeature slice / + / reverse_complement vs Biopython on random feature tables
import random
import re as real_re


def _model_match(P, s, pos, endpos):
    from .core import Space, SSeq, SInt
    import z3

    sp = Space(5000)
    Space.cur = sp
    try:
        m = P.match(SSeq.const(s), pos, endpos)
        if m is None:
            return None
        out = {}
        mdl = None
        for g in range(P.groups + 1):
            a, b = m.span(g)
            vals = []
            for x in (a, b):
                if isinstance(x, SInt):
                    if mdl is None:
                        mdl = sp.get_model()
                    x = mdl.eval(x.e, model_completion=True).as_long()
                vals.append(x)
            out[g] = tuple(vals)
        return out
    finally:
        Space.cur = None


def _model_finditer(P, s, pos, endpos):
    from .core import Space, SSeq, SInt

    sp = Space(5000)
    Space.cur = sp
    try:
        out = []
        for m in P.finditer(SSeq.const(s), pos, endpos):
            a, b = m.span(0)
            vals = []
            for x in (a, b):
                if isinstance(x, SInt):
                    x = sp.get_model().eval(x.e, model_completion=True).as_long()
                vals.append(x)
            out.append(tuple(vals))
        return out
    finally:
        Space.cur = None


def validate_regex(patterns, rng, per_pattern=25, exhaustive_len=4):
    from .models.re_model import SymPattern

    n = 0
    bad = []
    for pat in patterns:
        try:
            P = SymPattern(pat)
        except real_re.error:
            continue
        if P.items is None:
            continue
        R = real_re.compile(pat)
        cases = []
        for _ in range(per_pattern):
            ln = rng.randint(1, max(4, min(14, P.fixed + 4)))
            s = "".join(rng.choice("ACGTacgtN") for _ in range(ln))
            if rng.random() < 0.6 and P.fixed <= 2 * ln:
                # plant something matchable: letters drawn from the pattern's own classes
                s = _instance(P, rng) or s
                ln = len(s)
            circ = rng.random() < 0.5
            data = s * 2 if circ else s
            i = rng.randrange(ln)
            cases.append((data, i, i + ln))
        if P.fixed <= exhaustive_len:
            import itertools

            for ln in range(1, exhaustive_len + 1):
                for tup in itertools.product("ACGT", repeat=ln):
                    cases.append(("".join(tup), 0, ln))
        for data, i, endpos in cases[:6]:
            # the scanner (finditer): successive non-overlapping matches
            exp_it = [mm.span() for mm in R.finditer(data, i, endpos)]
            got_it = _model_finditer(P, data, i, endpos)
            n += 1
            if got_it != exp_it:
                bad.append(dict(pattern=pat, data=data, pos=i, endpos=endpos, real_finditer=exp_it, model_finditer=got_it))
                if len(bad) > 3:
                    return n, bad
        for data, i, endpos in cases:
            real = R.match(data, i, endpos)
            exp = None if real is None else {g: real.span(g) for g in range(P.groups + 1)}
            got = _model_match(P, data, i, endpos)
            n += 1
            if got != exp:
                bad.append(dict(pattern=pat, data=data, pos=i, endpos=endpos, real=exp, model=got))
                if len(bad) > 3:
                    return n, bad
    return n, bad


def _instance(P, rng):
    from .core import char_of

    out = []
    for it in P.items:
        if it[0] == "set":
            codes = [c for c in it[1].codes if c < 30]
            if it[1].neg or not codes:
                return None
            out.append(char_of(rng.choice(codes)))
        elif it[0] == "run":
            codes = [c for c in it[1].codes if c < 30]
            if it[1].neg or not codes:
                return None
            hi = 3 if it[2] is None else it[2]
            for _ in range(rng.randint(0, hi)):
                out.append(char_of(rng.choice(codes)))
    s = "".join(out)
    k = rng.randrange(len(s) + 1) if s else 0
    pad = "".join(rng.choice("ACGT") for _ in range(rng.randint(0, 2)))
    return (s[k:] + pad + s[:k]) if rng.random() < 0.5 else s + pad


def validate_catalyse(enzymes, rng, per_enzyme=40):
    import Bio.Restriction
    import Bio.Seq
    from .models.restriction import EnzymeWrap
    from .models.bio import Seq
    from .core import SSeq, Space, SInt

    n, bad = 0, []
    for name in enzymes:
        real = getattr(Bio.Restriction, name)
        w = EnzymeWrap(real)
        import itertools
        from Bio.Data import IUPACData

        def inst(word):
            return "".join(rng.choice(IUPACData.ambiguous_dna_values[c]) for c in word)

        site = real.site
        rsite = str(Bio.Seq.Seq(site).reverse_complement())
        for _ in range(per_enzyme):
            ln = rng.randint(1, 40)
            s = [rng.choice("ACGTacgtNn") for _ in range(ln)]
            for _ in range(rng.randint(0, 3)):
                word = rng.choice([inst(site), inst(rsite), inst(site).lower()])
                p = rng.randrange(0, ln)
                s[p:p + len(word)] = list(word)
            s = "".join(s)[: max(ln, 1)]
            exp = (len(real.catalyse(Bio.Seq.Seq(s))), len(real.search(Bio.Seq.Seq(s))), len(real.compsite.findall(s)))
            sp = Space(5000)
            Space.cur = sp
            try:
                got = []
                for g in (w.catalyse(Seq(SSeq.const(s))).count, w.search(Seq(SSeq.const(s))).count,
                          w.compsite.findall(SSeq.const(s)).count):
                    if isinstance(g, SInt):
                        g = sp.get_model().eval(g.e, model_completion=True).as_long()
                    got.append(g)
                got = tuple(got)
            finally:
                Space.cur = None
            n += 1
            if got != exp:
                bad.append(dict(enzyme=name, seq=s, real=exp, model=got))
                if len(bad) > 3:
                    return n, bad
    return n, bad


def validate_records(rng, count=150):
    """model vs real: slice, +, reverse_complement, CircularRecord >>, on random feature tables"""
    from . import loader
    from .run import normalise

    sym, real = loader.sym_stack(), loader.real_stack()
    n, bad = 0, []
    for _ in range(count):
        ln = rng.randint(1, 14)
        s = "".join(rng.choice("ACGTacgtN") for _ in range(ln))
        feats = []
        for _ in range(rng.randint(0, 3)):
            parts = []
            for _ in range(rng.choice([1, 1, 2, 3])):
                a = rng.randint(0, ln)
                b = rng.randint(a, ln + rng.choice([0, 0, 3]))
                parts.append((a, b, rng.choice([1, -1, 0, None]), rng.choice(["ee", "ee", "ee", "ba", "be", "ea", "ab"])))
            feats.append((parts, rng.choice(["CDS", "source", "misc"]), {"label": ["x%d" % rng.randint(0, 9)]},
                          rng.choice(["join", "join", "order"])))
        op = rng.choice(["slice", "add", "rc", "rot", "rot", "lrot", "cslice", "crc"])
        a, b = rng.randint(-ln - 2, ln + 2), rng.randint(-ln - 2, ln + 2)
        k = rng.randint(-3 * ln - 1, 3 * ln + 1)
        track = [rng.randint(0, 9) for _ in range(ln)]
        outs = []
        for st in (sym, real):
            def mkrec(cls, s=s):
                fs = []
                for parts, typ, q, op in feats:
                    def pos(v, kind):
                        return {"e": int, "b": st.BeforePosition, "a": st.AfterPosition}[kind](v)
                    locs = [st.SimpleLocation(pos(x, fz[0]), pos(y, fz[1]), strand=z) for x, y, z, fz in parts]
                    loc = locs[0] if len(locs) == 1 else st.CompoundLocation(locs, operator=op)
                    fs.append(st.SeqFeature(loc, type=typ, qualifiers=dict(q)))
                return cls(st.Seq(s), id="i", name="n", description="d", features=fs,
                           annotations={"topology": "circular", "molecule_type": "DNA"}, letter_annotations={"q": list(track)})
            try:
                if op == "slice":
                    r = mkrec(st.SeqRecord)[a:b]
                elif op == "add":
                    r = mkrec(st.SeqRecord) + mkrec(st.SeqRecord, s[::-1])
                elif op == "rc":
                    r = mkrec(st.SeqRecord).reverse_complement()
                elif op == "rot":
                    r = mkrec(st.record.CircularRecord) >> k
                elif op == "lrot":
                    r = mkrec(st.record.CircularRecord) << k
                elif op == "cslice":
                    r = mkrec(st.record.CircularRecord)[a:b]
                else:
                    r = mkrec(st.record.CircularRecord).reverse_complement()
                outs.append(normalise(r))
            except Exception as e:
                outs.append(["exc", type(e).__name__])
        n += 1
        if outs[0] != outs[1]:
            bad.append(dict(op=op, seq=s, feats=str(feats), a=a, b=b, k=k, model=str(outs[0])[:600], real=str(outs[1])[:600]))
            if len(bad) > 3:
                break
    return n, bad


def all_patterns():
    """every pattern string the checks put through the regex model, transcribed by /repo's own DNARegex"""
    from . import loader
    import inspect

    st = loader.real_stack()
    pats = set()

    def tr(structure):
        # the regular expression the repository itself compiles for a structure (public attribute `regex`); if that
        # cannot be read, the harness's own IUPAC expansion is used instead
        try:
            p_ = st.regex.DNARegex(structure).regex.pattern
            if isinstance(p_, str):
                return p_
        except Exception:
            pass
        from harness.c16 import oracle_regex

        return oracle_regex(structure)
    for kit in loader.KITS:
        try:
            m = st.kit(kit)
        except Exception:
            continue
        for name, c in vars(m).items():
            if inspect.isclass(c) and hasattr(c, "structure"):
                try:
                    s = c.structure()
                    if isinstance(s, str):
                        pats.add(tr(s))
                except Exception:
                    pass
    for e in ("BsaI", "BbsI", "SapI", "FokI", "BccI", "BtgZI", "BciVI", "BseRI", "MnlI"):
        for base in (st.modules.AbstractModule, st.vectors.AbstractVector):
            try:
                K = type("V", (base,), {"cutter": st.enzyme(e)})
                pats.add(tr(K.structure()))
            except Exception:
                pass
    return sorted(pats)


def run_all(seed, which=("re", "catalyse", "records"), shapes=()):
    rng = random.Random(seed * 7 + 13)
    report = {}
    bad_total = []
    if "re" in which:
        from . import loader

        st = loader.real_stack()

        def tr(structure):
            try:
                p_ = st.regex.DNARegex(structure).regex.pattern
                if isinstance(p_, str):
                    return p_
            except Exception:
                pass
            from harness.c16 import oracle_regex

            return oracle_regex(structure)

        pats = all_patterns() + [tr(s) for s in shapes]
        n, bad = validate_regex(pats, rng)
        report["re"] = dict(cases=n, patterns=len(pats), mismatches=len(bad))
        bad_total += bad
    if "catalyse" in which:
        n, bad = validate_catalyse(["BsaI", "BbsI", "BsmBI", "SapI", "FokI", "BpiI", "BciVI", "BtgZI", "BccI", "AspBHI", "LpnPI",
                                    "MspJI", "TsoI", "Eco57MI", "SgrTI", "EcoRI", "BglI"], rng)
        report["catalyse"] = dict(cases=n, mismatches=len(bad))
        bad_total += bad
    if "records" in which:
        n, bad = validate_records(rng)
        report["records"] = dict(cases=n, mismatches=len(bad))
        bad_total += bad
    return report, bad_total
