#!/usr/bin/env python3
"""Print the markdown table of seeded changes from seeded/*/meta.json (development aid)."""
import glob, json, os
HERE = os.path.dirname(os.path.dirname(os.path.abspath(__file__)))
print("| seed | property | change | needs | suite | demo (without/with) | caught by (exit 1) | missed by |")
print("|---|---|---|---|---|---|---|---|")
for d in sorted(glob.glob(os.path.join(HERE, "seeded", "*"))):
    mp = os.path.join(d, "meta.json")
    if not os.path.exists(mp):
        continue
    m = json.load(open(mp))
    c = m.get("confirmation", {})
    checks = c.get("checks", {})
    caught = [k for k, v in checks.items() if v.get("rc") == 1]
    missed = [k for k, v in checks.items() if v.get("rc") == 0]
    other = [k + ":rc=%s" % v.get("rc") for k, v in checks.items() if v.get("rc") not in (0, 1)]
    suite = (c.get("suite") or "").split(",")[0]
    print("| %s | %s | %s | %s | %s | %s/%s | %s | %s |" % (
        os.path.basename(d), m.get("property"), (m.get("summary") or "").replace("|", "/")[:160],
        (m.get("needs") or "").replace("|", "/")[:160], suite, c.get("demo_without"), c.get("demo_with"),
        ", ".join(caught) or "-", ", ".join(missed + other) or "-"))
