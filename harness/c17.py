# C17 - validation is total and failures are always reported as MoClo errors.
# Code executed symbolically: block R over the IUPAC x case alphabet for kit classes and generic
# classes (5' and 3' cutters), structure construction for every usable enzyme of Bio.Restriction,
# and block W with modules that may be invalid.
from .common import *
from .rblock import *
from .wblock import *
from .c04 import class_params

ID = "C17"
LEVEL_TEXT = ("Bounded verification by symbolic execution of the real typing code on records over the 30-letter IUPAC x case "
              "alphabet, including records shorter than the structure: on every feasible path is_valid() returns a bool; when "
              "it is False the accessors raise InvalidSequence, when True they return; for every non-blunt, known enzyme of the "
              "installed Bio.Restriction the generic module/vector structure is built and queried (an exception escaping "
              "is_valid is observed by the executor as the path's outcome); and the assembly code run on stub modules of which "
              "any subset is invalid ends in a product or a documented MoClo exception on every path.  Bounded claim.")
LEVEL_NOTE = ("Bounds: n in {1,2,F-1,F,F+1} quick / also F+2 and mid lengths thorough per class shape; letters over all 15 IUPAC "
              "codes in both cases; m<=3 modules in the assembly clause. Exceptions that only C-level library code could raise "
              "on exotic input are covered by the concrete differential samples only. Trusted: z3, CPython, symx models.")
LEVEL_NOTE_EXTRA = 'Also: how a record is invalid is symbolic: structure mismatch (InvalidSequence carrying the record) or illegal site (IllegalSite carrying the bare sequence).'
TECHNIQUE = "bounded symbolic execution of the real Python source (symx) with z3; exceptions observed as path outcomes; replay on the real stack"
EXPLANATION = ("symbolic execution over the IUPAC x case alphabet: any exception other than the documented ones that escapes "
               "is_valid/overhang_*/target_sequence/assemble on some feasible path is a counterexample (replayed concretely)")
ASSUMPTIONS = [
    "records over the 30 IUPAC letters (both cases), length >= 1",
    "enzymes: every non-blunt, known enzyme of the installed Bio.Restriction for structure construction; symbolic digests only "
    "for single-cut enzymes with unambiguous sites",
    "in the assembly clause modules are stubs whose accessors raise InvalidSequence when the module is (symbolically) invalid",
]


def bounds(tier):
    return dict(lengths=tier_pick(tier, "1,2,F-1,F,F+1", "1,2,3,F-2..F+2"), alphabet="15 IUPAC codes x 2 cases",
                assembly_modules_max=3)


def ob_total(ctx):
    st = ctx.stack
    P = ctx.P
    n = P["n"]
    K = get_class(st, P)
    r = ctx.mk.seq("r", n, "IUPACcase")
    rec = st.record.CircularRecord(st.Seq(r), id="rec")
    ent = K(rec)
    v = ent.is_valid()
    ctx.observe("valid", v)
    ctx.require(v is True or v is False, "is_valid-not-a-bool")
    ctx.witness("accepted" if v else "rejected")
    accs = ["overhang_start", "overhang_end", "target_sequence"]
    if role_of(st, K) == "vector":
        accs.append("placeholder_sequence")
    for acc in accs:
        try:
            getattr(ent, acc)()
            raised = False
        except st.errors.InvalidSequence:
            raised = True
        ctx.require(raised == (not v), "%s-%s" % (acc, "returned-on-invalid-record" if not v else "raised-on-valid-record"))
    # asking twice gives the same answer
    ctx.require(ent.is_valid() == v, "is_valid-not-stable")
    return True


def usable_enzymes():
    import Bio.Restriction as R

    out = []
    for e in sorted(R.AllEnzymes, key=str):
        try:
            if e.is_blunt() or e.is_unknown():
                continue
        except Exception:
            continue
        out.append(str(e))
    return out


def ob_enzymes(ctx):
    """structure construction + a query for generic classes over every enzyme of a chunk"""
    st = ctx.stack
    P = ctx.P
    r = ctx.mk.seq("r", P["n"], "IUPACcase")
    rec = st.record.CircularRecord(st.Seq(r), id="rec")
    for name in P["enzymes"]:
        for role in ("module", "vector"):
            K = generic_class(st, role, name)
            ent = K(rec)
            v = ent.is_valid()
            ctx.require(v is True or v is False, "is_valid-not-a-bool:%s:%s" % (role, name))
            try:
                ent.overhang_start()
                raised = False
            except st.errors.InvalidSequence:
                raised = True
            ctx.require(raised == (not v), "accessor-vs-validity:%s:%s" % (role, name))
    return True


def ob_assembly(ctx):
    """any subset of invalid modules / vector: product or documented exception"""
    st = ctx.stack
    P = ctx.P
    m, k = P["m"], 2
    Mod, Vec = stub_classes(st)
    err = st.errors
    up = ctx.mk.seq("up", k, "ACGTacgt")
    down = ctx.mk.seq("down", k, "ACGTacgt")
    starts = [ctx.mk.seq("s%d" % i, k, "ACGTacgt") for i in range(m)]
    ends = [ctx.mk.seq("e%d" % i, k, "ACGTacgt") for i in range(m)]
    # how a record is invalid: 0 = it is fine, 1 = it does not match the structure (InvalidSequence carrying the record),
    # 2 = it matches but holds a further site (IllegalSite carrying the bare sequence, as modules.py/vectors.py raise it)
    bad = [ctx.mk.pick("bad%d" % i, 3) for i in range(m)]
    vbad = ctx.mk.pick("vbad", 3)

    class Flaky(Mod):
        def _chk(self):
            if self.is_bad == 1:
                raise err.InvalidSequence(self.record, details="does not match")
            if self.is_bad == 2:
                raise err.IllegalSite(self.record.seq)

        def overhang_start(self):
            self._chk()
            return Mod.overhang_start(self)

        def overhang_end(self):
            self._chk()
            return Mod.overhang_end(self)

        def target_sequence(self):
            self._chk()
            return Mod.target_sequence(self)

    class FlakyVec(Vec):
        def _chk(self):
            if self.is_bad == 1:
                raise err.InvalidSequence(self.record, details="does not match")
            if self.is_bad == 2:
                raise err.IllegalSite(self.record.seq)

        def overhang_start(self):
            self._chk()
            return Vec.overhang_start(self)

        def overhang_end(self):
            self._chk()
            return Vec.overhang_end(self)

        def target_sequence(self):
            self._chk()
            return Vec.target_sequence(self)

    def rec(i):
        return st.record.CircularRecord(st.Seq("ACGT"), id="m%d" % i if i >= 0 else "vec")

    mods = []
    for i in range(m):
        mo = Flaky(rec(i), st.Seq(starts[i]), st.Seq(ends[i]),
                   (lambda i=i: st.SeqRecord(st.Seq(starts[i] + "AC"), id="m%d" % i)))
        mo.is_bad = bad[i]
        mods.append(mo)
    vec = FlakyVec(rec(-1), st.Seq(up), st.Seq(down), lambda: st.SeqRecord(st.Seq(up + "TT"), id="vec"))
    vec.is_bad = vbad
    out = run_assemble(st, vec, mods)  # anything but product / the three documented errors escapes
    ctx.observe("kind", out["kind"])
    ctx.witness(out["kind"])
    ctx.witness("two-invalid-records", sum(1 for b in bad + [vbad] if b) >= 2)
    ctx.require(out["kind"] in ("product", "InvalidSequence", "IllegalSite", "DuplicateModules", "MissingModule"), "undocumented-outcome")
    if out["kind"] in ("InvalidSequence", "IllegalSite"):
        str(out["exc"])  # the message of a MoClo error can always be rendered
    if out["kind"] == "product":
        ctx.require(isinstance(out["product"], st.record.CircularRecord), "product-type")
    return True


GEN3 = ["BciVI", "BseRI", "MnlI"]  # 3'-overhang, single-cut, unambiguous site: structures fixed by 297887b


def obligations(tier, seed):
    obs = []
    for params, pat, F in class_params(tier, seed):
        label = "%s.%s" % (params["kit"], params["cls"]) if params["src"] == "kit" else \
            "generic %s over %s" % (params["role"], params["enzyme"])
        ns = [1, 2, F - 1, F, F + 1] if tier == "quick" else [1, 2, 3, F - 2, F - 1, F, F + 1, F + 2]
        if tier == "quick" and F > 40:
            ns = [1, F - 1, F]
        for n in ns:
            obs.append(Ob("total %s n=%d (F=%d)" % (label, n, F), ob_total, dict(params, n=n), samples=3,
                          cost=(n ** 3 if n >= F else 1), group="total " + label))
    for e in GEN3:
        for role in ("module", "vector"):
            from symx import loader

            K = generic_class(loader.real_stack(), role, e)
            try:
                F = fixed_letters(K.structure())
            except Exception:
                F = 20
            for n in ([1, F, F + 1] if tier == "quick" else [1, 2, F - 1, F, F + 1, F + 2]):
                obs.append(Ob("total generic %s over %s (3' overhang) n=%d" % (role, e, n), ob_total,
                              dict(src="generic", role=role, enzyme=e, n=n), samples=3, cost=n ** 3 if n >= F else 1,
                              group="total generic3 %s %s" % (role, e)))
    enz = usable_enzymes()
    chunk = 60
    for i in range(0, len(enz), chunk):
        obs.append(Ob("structures of generic classes over enzymes %s..%s" % (enz[i], enz[min(len(enz), i + chunk) - 1]),
                      ob_enzymes, dict(enzymes=enz[i:i + chunk], n=3), samples=2, cost=50, group="enzymes"))
    for m in ([1, 2, 3] if tier == "quick" else [1, 2, 3, 4]):
        obs.append(Ob("assembly with invalid records m=%d" % m, ob_assembly, dict(m=m), samples=10, cost=8 ** m,
                      expect_witness=("product", "InvalidSequence")))
    return obs
