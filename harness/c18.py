# C18 - letter case of the input sequences never changes the outcome.
# Code executed symbolically: block R on a record and on a re-cased spelling of it (independent
# symbolic case bit per letter); block W on overhangs/fragments with symbolic case per letter.
from .common import *
from .rblock import *
from .wblock import *
from .c04 import class_params

ID = "C18"
LEVEL_TEXT = ("Bounded verification by symbolic execution: (R) for each class shape the real typing code is run on an upper-case "
              "symbolic plasmid and on the same plasmid with an independent symbolic case bit per letter, and z3 shows equal "
              "verdicts and equal overhangs/targets/placeholders up to case; (W) the real assembly code is run on stub modules "
              "whose overhang letters carry symbolic case bits and on their all-upper-case spelling, and z3 shows the same "
              "outcome class, the same product up to case and the same stalled overhang up to case.  Bounded claim.")
LEVEL_NOTE = ("Bounds: R: n = F+1 for one class per pattern shape with F<=40 + 5 geometries (quick), n in [F,F+2] all patterns (thorough); "
              "W: m<=3 modules quick / m<=4 thorough, 2-nt overhangs, every per-letter case assignment. Trusted: z3, CPython, "
              "symx models.")
LEVEL_NOTE_EXTRA = 'Also: a vector with room for a third site (IllegalSite verdict under case change); characterize under every spelling; plasmids over ACGTN (unknown bases have a lower-case spelling too).'
TECHNIQUE = "bounded symbolic execution of the real Python source (symx) with z3; metamorphic relation over symbolic per-letter case bits; replay on the real stack"
EXPLANATION = ("case bits are symbolic variables: letter' = letter + 4*bit on the ACGT/acgt coding, so one query covers every "
               "mixed-case spelling of every plasmid / overhang graph in the bound")
ASSUMPTIONS = [
    "letters over ACGT with an independent case bit per letter (all 2^n spellings)",
    "W: modules are stubs (the walk reads overhangs and fragments only)",
    "CPython re and Bio.Restriction.catalyse replaced by validated SMT models",
]


def bounds(tier):
    return dict(R_slack=tier_pick(tier, [1], [0, 1, 2]), W_modules_max=tier_pick(tier, 3, 4))


def recase(ctx, name, r, n):
    """same letters as r (upper-case ACGT data) with an independent symbolic case bit per letter"""
    from symx.core import mkletter

    bits = ctx.mk.track(name, n, lo=0, hi=1)
    if isinstance(bits, SSeq):
        R = SSeq.lift(r)
        return SSeq(n, lambda p: mkletter(R.get(p), bits.get(p)), n, hint=frozenset(range(8)))
    return "".join(ch.lower() if b else ch for ch, b in zip(r, bits))


def recase_any(ctx, name, r, n):
    """as recase, for upper-case data over any IUPAC letters (N, R, Y, ... have lower-case spellings too)"""
    from symx.core import map_code, _LOWER

    bits = ctx.mk.track(name, n, lo=0, hi=1)
    if isinstance(bits, SSeq):
        R = SSeq.lift(r)
        return SSeq(n, lambda p: If(Eq(bits.get(p), 1), map_code(R.get(p), _LOWER, str.lower), R.get(p)), n,
                    hint=frozenset(range(30)))
    return "".join(ch.lower() if b else ch for ch, b in zip(r, bits))


def eq_upto_case(a, b):
    a, b = sdata(a), sdata(b)
    la, lb = slen(a), slen(b)
    m = max(_ml(a), _ml(b))
    return And([Eq(la, lb)] + [Implies(j < la, Eq(supper_code(sat(a, j)), supper_code(sat(b, j)))) for j in range(m)])


def _ml(x):
    return x.maxlen if isinstance(x, SSeq) else len(x)


def ob_typing(ctx):
    st = ctx.stack
    P = ctx.P
    n = P["n"]
    K = get_class(st, P)
    if P.get("alphabet"):
        # plasmids with unknown bases: N (and any other IUPAC letter) has a lower-case spelling as well
        r = ctx.mk.seq("r", n, P["alphabet"])
        r2 = recase_any(ctx, "case", r, n)
    else:
        r = ctx.mk.seq("r", n, "ACGT")
        r2 = recase(ctx, "case", r, n)
    a = K(st.record.CircularRecord(st.Seq(r), id="u"))
    b = K(st.record.CircularRecord(st.Seq(r2), id="m"))
    va, vb = a.is_valid(), b.is_valid()
    ctx.observe("valid", [va, vb])
    if P.get("third"):
        # the verdict on a further recognition site inside the vector's placeholder (IllegalSite) is part of the outcome
        ia, ib = _illegal(st, a), _illegal(st, b)
        ctx.observe("illegal", [ia, ib])
        ctx.require(ia == ib, "illegal-site-verdict-depends-on-case")
        ctx.witness("illegal-site" if ia else "no-illegal-site")
    ctx.require(va == vb, "acceptance-depends-on-case")
    ctx.witness("accepted" if va else "rejected")
    if not va:
        return True
    ctx.require(eq_upto_case(a.overhang_start(), b.overhang_start()), "overhang_start-depends-on-case")
    ctx.require(eq_upto_case(a.overhang_end(), b.overhang_end()), "overhang_end-depends-on-case")
    ctx.require(eq_upto_case(a.target_sequence().seq, b.target_sequence().seq), "target-depends-on-case")
    if role_of(st, K) == "vector":
        ctx.require(eq_upto_case(a.placeholder_sequence().seq, b.placeholder_sequence().seq),
                    "placeholder-depends-on-case")
    return True


def ob_characterize(ctx):
    """the kit-level typing entry point (AbstractPart.characterize) types every spelling of a plasmid alike"""
    from .c05 import user_family

    st = ctx.stack
    P = ctx.P
    n = P["n"]
    B = user_family(st, P["role"], P["enzyme"])
    r = ctx.mk.seq("r", n, "ACGT")
    r2 = recase(ctx, "case", r, n)

    def typed(data, ident):
        try:
            return B.characterize(st.record.CircularRecord(st.Seq(data), id=ident))
        except RuntimeError:
            return None

    a, b = typed(r, "u"), typed(r2, "m")
    ctx.observe("types", [type(a).__name__, type(b).__name__])
    ctx.require(type(a) is type(b), "characterize-depends-on-case")
    ctx.witness("typed" if a is not None else "untyped")
    if a is not None:
        ctx.require(eq_upto_case(a.overhang_start(), b.overhang_start()), "overhang_start-depends-on-case")
        ctx.require(eq_upto_case(a.overhang_end(), b.overhang_end()), "overhang_end-depends-on-case")
        ctx.require(eq_upto_case(a.target_sequence().seq, b.target_sequence().seq), "target-depends-on-case")
    return True


def _illegal(st, ent):
    try:
        ent._match
    except st.errors.IllegalSite:
        return True
    except st.errors.InvalidSequence:
        return False
    return False


MARK = ["AAAC", "CCG", "GT", "TGCAT"]


def ob_assembly(ctx):
    st = ctx.stack
    P = ctx.P
    m, k = P["m"], 2
    Mod, Vec = stub_classes(st)
    names = ["up", "down"] + ["s%d" % i for i in range(m)] + ["e%d" % i for i in range(m)]
    U = {nm: ctx.mk.seq(nm, k, "ACGT") for nm in names}
    C = {nm: recase(ctx, "c_" + nm, U[nm], k) for nm in names}

    def build(O, tag):
        mods = [Mod(st.record.CircularRecord(st.Seq("ACGT"), id="m%d" % i), st.Seq(O["s%d" % i]), st.Seq(O["e%d" % i]),
                    (lambda i=i: st.SeqRecord(st.Seq(O["s%d" % i] + MARK[i]), id="m%d" % i))) for i in range(m)]
        vec = Vec(st.record.CircularRecord(st.Seq("ACGT"), id="vec"), st.Seq(O["up"]), st.Seq(O["down"]),
                  lambda: st.SeqRecord(st.Seq(O["up"] + "TTTT"), id="vec"))
        return vec, mods

    v1, m1 = build(U, "upper")
    v2, m2 = build(C, "mixed")
    o1 = run_assemble(st, v1, m1)
    o2 = run_assemble(st, v2, m2)
    ctx.observe("kinds", [o1["kind"], o2["kind"]])
    ctx.witness(o1["kind"])
    ctx.require(o1["kind"] == o2["kind"], "outcome-depends-on-case:%s-vs-%s" % (o1["kind"], o2["kind"]))
    if o1["kind"] == "product":
        ctx.require(eq_upto_case(o1["product"].seq, o2["product"].seq), "product-depends-on-case")
        u1 = sorted(m1.index(x) for w in o1["unused"] for x in w.remaining)
        u2 = sorted(m2.index(x) for w in o2["unused"] for x in w.remaining)
        ctx.require(u1 == u2, "unused-depends-on-case")
    elif o1["kind"] == "MissingModule":
        ctx.require(eq_upto_case(o1["exc"].start_overhang, o2["exc"].start_overhang), "stall-depends-on-case")
    return True


def obligations(tier, seed):
    obs = []
    slack = tier_pick(tier, [1], [0, 1, 2])
    for params, pat, F in class_params(tier, seed):
        label = "%s.%s" % (params["kit"], params["cls"]) if params["src"] == "kit" else \
            "generic %s over %s" % (params["role"], params["enzyme"])
        for s in slack:
            n = F + s
            if tier == "quick" and F > 40:
                continue  # the largest structures (EcoFlex/MoClo cassette vectors, BtgZI) are left to the thorough tier
            obs.append(Ob("typing %s n=%d" % (label, n), ob_typing, dict(params, n=n), samples=3, cost=n ** 3,
                          group="typing " + label))
    from symx import loader

    rst = loader.real_stack()
    for e in (["BsaI"] if tier == "quick" else ["BsaI", "BbsI", "SapI"]):
        g = Geometry(rst.enzyme(e))
        F = fixed_letters(generic_class(rst, "vector", e).structure())
        n = F + g.L
        obs.append(Ob("typing generic vector over %s n=%d (room for a third site in the placeholder)" % (e, n), ob_typing,
                      dict(src="generic", role="vector", enzyme=e, n=n, third=True), samples=3, cost=n ** 3 * 2,
                      expect_witness=("illegal-site", "no-illegal-site"), group="third-site " + e))
    for role in tier_pick(tier, ["module"], ["module", "vector"]):
        F = fixed_letters(generic_class(rst, role, "BsaI").structure())
        obs.append(Ob("typing generic %s over BsaI n=%d, plasmids with unknown bases (letters ACGTN) under every spelling" % (role, F + 1),
                      ob_typing, dict(src="generic", role=role, enzyme="BsaI", n=F + 1, alphabet=[0, 1, 2, 3, code_of("N")]),
                      samples=3, cost=3 * (F + 1) ** 3, group="unknown bases"))
    for role in tier_pick(tier, ["module"], ["module", "vector"]):
        F = fixed_letters(generic_class(rst, role, "BsaI").structure())
        obs.append(Ob("characterize user family %s over BsaI n=%d under every spelling" % (role, F + 1), ob_characterize,
                      dict(role=role, enzyme="BsaI", n=F + 1), samples=3, cost=4 * (F + 1) ** 3, group="characterize",
                      expect_witness=("typed", "untyped")))
    for m in range(1, tier_pick(tier, 3, 4) + 1):
        obs.append(Ob("assembly with mixed-case overhangs m=%d" % m, ob_assembly, dict(m=m), samples=10, cost=30 ** m,
                      expect_witness=("product",)))
    return obs
