#!/usr/bin/env python3
"""False-alarm test: run every quick check against a behaviour-preserving refactoring of /repo (development aid).
usage: refactor_eval.py <worktree-with-change-applied> <id>
Copies patch.diff/meta.json to /verif/refactorings/<id>/ and records the exit code of every check (all must be 0)."""
import json, os, shutil, subprocess, sys, time

wt, rid = sys.argv[1], sys.argv[2]
VERIF = os.path.dirname(os.path.dirname(os.path.abspath(__file__)))
dst = os.path.join(VERIF, "refactorings", rid)
os.makedirs(dst, exist_ok=True)
for f in ("patch.diff", "meta.json"):
    if os.path.exists(os.path.join(wt, "seed", f)):
        shutil.copy(os.path.join(wt, "seed", f), os.path.join(dst, f))
out = {}
r = subprocess.run(["/venv/bin/python", "-m", "pytest", "-q", "-p", "no:cacheprovider", "--timeout=900"], cwd=wt,
                   capture_output=True, text=True, timeout=1800)
out["suite"] = r.stdout.strip().splitlines()[-1] if r.stdout.strip() else r.stderr[-300:]
env = dict(os.environ, MOCLO_REPO=wt)
checks = sys.argv[3:] or ["C%02d" % i for i in range(1, 21)]
out["checks"] = {}
for c in checks:
    t = time.time()
    r = subprocess.run([os.path.join(VERIF, "check"), c, "--no-evidence"], capture_output=True, text=True, env=env, timeout=3600)
    lines = [l for l in r.stdout.splitlines() if l.startswith(("VIOLATION", "INCONCLUSIVE", "HARNESS-ERROR", "[" + c + "] obl"))]
    out["checks"][c] = dict(rc=r.returncode, wall=round(time.time() - t), lines=[l[:300] for l in lines[:5]])
    rp = os.path.join(VERIF, "replays", c, "0.json")
    if r.returncode == 1 and os.path.exists(rp):
        shutil.copy(rp, os.path.join(dst, "alarm_%s.json" % c))
    print(c, r.returncode, lines[-1] if lines else "", flush=True)
shutil.rmtree(os.path.join(VERIF, "replays"), ignore_errors=True)
subprocess.run(["git", "-C", VERIF, "checkout", "--", "replays"], capture_output=True)
meta = {}
mp = os.path.join(dst, "meta.json")
if os.path.exists(mp):
    try:
        meta = json.load(open(mp))
    except Exception:
        meta = {"raw": open(mp).read()}
meta["evaluation"] = out
json.dump(meta, open(mp, "w"), indent=1)
print(json.dumps({c: v["rc"] for c, v in out["checks"].items()}))
