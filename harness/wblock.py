# Building block W: the real assembly code (AbstractVector.assemble, AssemblyManager.*) run on
# stub modules/vectors whose overhangs and fragments are symbolic values.  The stubs subclass the
# stack's real AbstractModule/AbstractVector and override only the three accessors.
import warnings

from .common import *


def stub_classes(st, enzyme="BsaI"):
    key = "_w_stubs_" + enzyme
    c = getattr(st, key, None)
    if c is not None:
        return c
    cutter = st.enzyme(enzyme)

    class StubModule(st.modules.AbstractModule):
        def __init__(self, record, start, end, target, fail=None):
            super(StubModule, self).__init__(record)
            self._s, self._e, self._t, self._fail = start, end, target, fail
            self.calls = []

        def overhang_start(self):
            self.calls.append("start")
            return self._s

        def overhang_end(self):
            self.calls.append("end")
            return self._e

        def target_sequence(self):
            self.calls.append("target")
            if self._fail is not None:
                raise self._fail
            return self._t() if callable(self._t) else self._t

    StubModule.cutter = cutter

    class StubVector(st.vectors.AbstractVector):
        def __init__(self, record, start, end, target, fail=None):
            super(StubVector, self).__init__(record)
            self._s, self._e, self._t, self._fail = start, end, target, fail
            self.calls = []

        def overhang_start(self):
            self.calls.append("start")
            return self._s

        def overhang_end(self):
            self.calls.append("end")
            return self._e

        def target_sequence(self):
            self.calls.append("target")
            if self._fail is not None:
                raise self._fail
            return self._t() if callable(self._t) else self._t

    StubVector.cutter = cutter
    c = (StubModule, StubVector)
    setattr(st, key, c)
    return c


def run_assemble(st, vec, mods, **kw):
    """-> dict(kind='product'|exception class name, exc, product, unused=[modules])"""
    err = st.errors
    with warnings.catch_warnings(record=True) as caught:
        warnings.simplefilter("always")
        try:
            prod = vec.assemble(*mods, **kw)
            out = dict(kind="product", product=prod)
        except (err.InvalidSequence, err.DuplicateModules, err.MissingModule) as e:
            out = dict(kind=type(e).__name__, exc=e)
    unused = []
    for w in caught:
        if isinstance(w.message, err.UnusedModules):
            unused.append(w.message)
    out["unused"] = unused
    return out


def revcomp_data(x, k):
    """reverse complement of sequence data of concrete length k -> list of codes"""
    return [scomp_code(sat(x, k - 1 - j)) for j in range(k)]


def codes(x, k):
    return [sat(x, j) for j in range(k)]


def codes_eq(a, b):
    return And([Eq(x, y) for x, y in zip(a, b)]) if len(a) == len(b) else False


def reference_walk(up, down, starts, ends, k):
    """plain reference semantics of C03 on overhang data (lists of letter codes); uses ordinary Python control
    flow, so under symbolic execution every comparison is decided by the solver on the current path.
    -> ('InvalidSequence',) | ('DuplicateModules', pairs) | ('MissingModule', stalled, chain) | ('product', chain)"""
    m = len(starts)
    if codes_eq(up, down):
        return ("InvalidSequence",)
    conflicts = []
    for i in range(m):
        for j in range(i + 1, m):
            if codes_eq(starts[i], starts[j]):
                conflicts.append((i, j))
    rc = [[scomp_code(c) for c in reversed(s)] for s in starts]
    for i in range(m):
        for j in range(i, m):
            if codes_eq(starts[i], rc[j]):
                conflicts.append((i, j))
    if conflicts:
        return ("DuplicateModules", conflicts)
    chain = []
    cur = down
    while not codes_eq(cur, up):
        nxt = None
        for i in range(m):
            if i not in chain and codes_eq(starts[i], cur):
                nxt = i
                break
        if nxt is None:
            return ("MissingModule", cur, chain)
        chain.append(nxt)
        cur = ends[nxt]
    return ("product", chain)
