# C12 - strand symmetry: reverse-complemented inputs give the reverse complement.
# Code executed symbolically: block R on r and on r.reverse_complement() (the real
# CircularRecord.reverse_complement), generic module/vector classes per enzyme; block W on stub
# fragments and their reverse complements; end-to-end on template plasmids.
from .common import *
from .rblock import *
from .wblock import *
from .c01 import cat, only_sites

ID = "C12"
LEVEL_TEXT = ("Bounded verification by symbolic execution: (R) a fully symbolic plasmid with exactly two recognition sites is "
              "typed by the real generic module/vector class and so is its reverse complement (real CircularRecord."
              "reverse_complement); z3 shows equal verdicts, start' = rc(end), end' = rc(start) and a reverse-complemented "
              "body; (W) the real assembly code on stub fragments and on their reverse complements gives reverse-complementary "
              "products (as circular words); (E2E) the same with the real classes on template plasmids.  Bounded claim.")
LEVEL_NOTE = ("Bounds: R: n = F+1 quick / [F,F+2] thorough, 3 geometries quick / all 20 thorough; W: chains of m<=3 quick / m<=4 "
              "thorough with all cohesive ends pairwise distinct and pairwise non-reverse-complementary (the symmetric closure of "
              "C01's domain: the code screens start overhangs, whose mirror images are end overhangs); E2E: chain 2. The registry "
              "clause is not claimed. Trusted: z3, CPython, symx models.")
LEVEL_NOTE_EXTRA = "Also: vector overhangs that are reverse complements of each other are inside the space (as in C01's); generic classes over 3'-overhang cutters (typing half); junctions containing the unknown base N."
TECHNIQUE = "bounded symbolic execution of the real Python source (symx) with z3; metamorphic relation under reverse complement; replay on the real stack"
EXPLANATION = "two runs on one path (inputs and their reverse complements); outputs related by reverse complement"
ASSUMPTIONS = [
    "R: exactly two occurrences of the recognition site on the circle counting both strands; letters over ACGT",
    "W/E2E: complete chains whose cohesive ends are pairwise distinct and pairwise non-reverse-complementary (incl. non-palindromic)",
]


def bounds(tier):
    return dict(R_slack=tier_pick(tier, [1], [0, 1, 2]), geometries=tier_pick(tier, 3, 20), W_modules_max=tier_pick(tier, 3, 4))


def rc_eq(a, b):
    """sequence a equals the reverse complement of sequence b (both concrete-or-symbolic length)"""
    a, b = sdata(a), sdata(b)
    la, lb = slen(a), slen(b)
    m = max(_ml(a), _ml(b))
    hint = b.hint if isinstance(b, SSeq) else None
    return And([Eq(la, lb)] + [Implies(j < la, Eq(sat(a, j), scomp_code(sat(b, lb - 1 - j), hint))) for j in range(m)])


def _ml(x):
    return x.maxlen if isinstance(x, SSeq) else len(x)


def ob_typing(ctx):
    st = ctx.stack
    P = ctx.P
    n = P["n"]
    K = generic_class(st, P["role"], P["enzyme"])
    g = Geometry(K.cutter)
    r = ctx.mk.seq("r", n, "ACGT")
    from .rblock import _letters_at

    occ = [_letters_at(r, n, p, g.site) for p in range(n)] + [_letters_at(r, n, p, g.rsite) for p in range(n)]
    ctx.assume(Eq(Count(occ), 2))
    rec = st.record.CircularRecord(st.Seq(r), id="fwd")
    a = K(rec)
    b = K(rec.reverse_complement())
    va, vb = a.is_valid(), b.is_valid()
    ctx.observe("valid", [va, vb])
    ctx.require(va == vb, "acceptance-not-strand-symmetric")
    ctx.witness("accepted" if va else "rejected")
    if not va:
        return True
    ctx.require(rc_eq(b.overhang_start(), a.overhang_end()), "start-is-not-rc-of-end")
    ctx.require(rc_eq(b.overhang_end(), a.overhang_start()), "end-is-not-rc-of-start")
    ta, tb_ = sdata(a.target_sequence().seq), sdata(b.target_sequence().seq)
    ctx.require(Eq(slen(ta), slen(tb_)), "target-length")
    if g.five:
        ctx.require(rc_eq(tb_[g.ovl:], ta[g.ovl:]), "body-not-reverse-complemented")
    else:
        # a 3'-overhang cutter leaves the single-stranded end at the other side: the fragment carries its trailing overhang
        L = slen(ta)
        ctx.require(rc_eq(tb_[:L - g.ovl], ta[:L - g.ovl]), "body-not-reverse-complemented")
    return True


def ob_walk(ctx):
    st = ctx.stack
    P = ctx.P
    m, k = P["m"], 2
    Mod, Vec = stub_classes(st)
    alpha = P.get("alphabet", "ACGT")  # with N: junctions that contain an unknown base (its complement is N again)
    o = [ctx.mk.seq("o%d" % i, k, alpha) for i in range(m + 1)]
    bodies = [ctx.mk.seq("b%d" % i, 1 + i % 3, "ACGT") for i in range(m)]
    vbody = ctx.mk.seq("vb", 3, "ACGT")
    cs = []
    for i in range(m + 1):
        for j in range(i + 1, m + 1):
            cs.append(Not(seq_eq(o[i], o[j])))
        for j in range(i, m + 1):
            if (i, j) == (0, m):
                # the chain's first start and last end (the vector's two overhangs) may be reverse complements of each
                # other: C01's space only forbids it among start overhangs, and here among end overhangs too, so that
                # the reverse-complemented inputs are in C01's space as well
                continue
            rc = rc_codes(o[j])
            cs.append(Not(And([Eq(sat(o[i], q), rc[q]) for q in range(k)])))
    ctx.assume(And(cs))
    ctx.witness("junction-with-N", Or([Eq(sat(x, q), code_of("N")) for x in o for q in range(k)]))
    ctx.witness("vector-overhangs-reverse-complementary", And([Eq(sat(o[0], q), rc_codes(o[m])[q]) for q in range(k)]))

    def R(x):
        return SSeq.of_codes(rc_codes(x)) if is_sym(x) or True else None

    def asm(starts, ends, targets, up, down, vt, order):
        mods = [Mod(st.record.CircularRecord(st.Seq("ACGT"), id="m%d" % i), st.Seq(_d(starts[i])), st.Seq(_d(ends[i])),
                    (lambda i=i: st.SeqRecord(st.Seq(_d(targets[i])), id="m%d" % i))) for i in order]
        vec = Vec(st.record.CircularRecord(st.Seq("ACGT"), id="vec"), st.Seq(_d(up)), st.Seq(_d(down)),
                  lambda: st.SeqRecord(st.Seq(_d(vt)), id="vec"))
        return run_assemble(st, vec, mods)

    order = list(range(m))
    if P["shuffle"]:
        order = order[1:] + order[:1]
    starts, ends = [o[i] for i in range(m)], [o[i + 1] for i in range(m)]
    o1 = asm(starts, ends, [cat(o[i], bodies[i]) for i in range(m)], o[m], o[0], cat(o[m], vbody), order)
    rstarts, rends = [R(e) for e in ends], [R(s) for s in starts]
    o2 = asm(rstarts, rends, [cat(R(ends[i]), R(bodies[i])) for i in range(m)], R(o[0]), R(o[m]),
             cat(R(o[0]), R(vbody)), order)
    ctx.observe("kinds", [o1["kind"], o2["kind"]])
    ctx.require(o1["kind"] == "product", "forward-assembly-failed:" + o1["kind"])
    ctx.require(o2["kind"] == "product", "reverse-complement-assembly-failed:" + o2["kind"])
    p1, p2 = sdata(o1["product"].seq), sdata(o2["product"].seq)
    N = slen(p1)
    ctx.require(Eq(slen(p2), N), "length")
    rc1 = rc_codes(p1)
    ctx.require_exists(False, lambda: Or([And([Eq(sat(p2, j), rc1[(j + s) % N]) for j in range(N)]) for s in range(N)]),
                       "products-not-reverse-complementary-circular-words")
    return True


def _d(x):
    if isinstance(x, SSeq) and isinstance(x.n, int) and all(isinstance(x.get(j), int) for j in range(x.n)):
        from symx.core import char_of

        return "".join(char_of(x.get(j)) for j in range(x.n))
    return x


def ob_e2e(ctx):
    st = ctx.stack
    P = ctx.P
    enzyme = P["enzyme"]
    g = Geometry(st.enzyme(enzyme))
    off = g.lo - g.L
    mk = ctx.mk
    c = 2
    o = [mk.seq("o%d" % i, g.ovl, "ACGT") for i in range(c + 1)]
    cs = []
    for i in range(c + 1):
        for j in range(i + 1, c + 1):
            cs.append(Not(seq_eq(o[i], o[j])))
        for j in range(i, c + 1):
            if (i, j) == (0, c):
                continue  # (see ob_walk)
            rc = rc_codes(o[j])
            cs.append(Not(And([Eq(sat(o[i], q), rc[q]) for q in range(g.ovl)])))
    ctx.assume(And(cs))
    datas = []
    for i in range(c):
        d = cat(g.site, mk.seq("x%d" % i, off, "ACGT"), o[i], mk.seq("t%d" % i, 2 + i, "ACGT"), o[i + 1],
                mk.seq("y%d" % i, off, "ACGT"), g.rsite, mk.seq("b%d" % i, 2, "ACGT"))
        only_sites(ctx, d, slen(d), g, {("f", 0), ("r", g.L + off + g.ovl + 2 + i + g.ovl + off)})
        datas.append(d)
    vd = cat(o[c], mk.seq("vb", 2, "ACGT"), o[0], mk.seq("vy", off, "ACGT"), g.rsite, mk.seq("vp", 2, "ACGT"), g.site,
             mk.seq("vx", off, "ACGT"))
    rpos = g.ovl + 2 + g.ovl + off
    only_sites(ctx, vd, slen(vd), g, {("r", rpos), ("f", rpos + g.L + 2)})
    Mc, Vc = generic_class(st, "module", enzyme), generic_class(st, "vector", enzyme)
    recs = [st.record.CircularRecord(st.Seq(d), id="m%d" % i) for i, d in enumerate(datas)]
    vrec = st.record.CircularRecord(st.Seq(vd), id="vec")
    p1 = sdata(Vc(vrec).assemble(*[Mc(x) for x in recs]).seq)
    p2 = sdata(Vc(vrec.reverse_complement()).assemble(*[Mc(x.reverse_complement()) for x in recs]).seq)
    ctx.observe("products", [p1, p2])
    N = slen(p1)
    ctx.require(Eq(slen(p2), N), "length")
    rc1 = rc_codes(p1)
    ctx.require_exists(False, lambda: Or([And([Eq(sat(p2, j), rc1[(j + s) % N]) for j in range(N)]) for s in range(N)]),
                       "products-not-reverse-complementary-circular-words")
    return True


def obligations(tier, seed):
    from symx import loader

    st = loader.real_stack()
    obs = []
    names = ["BsaI", "BbsI", "SapI"] if tier == "quick" else [v[0] for k, v in sorted(geometries().items())] + ["LpnPI", "SgrTI"]
    for e in names:
        for role in ("module", "vector"):
            F = fixed_letters(generic_class(st, role, e).structure())
            for s in tier_pick(tier, [1], [0, 1, 2]):
                obs.append(Ob("typing generic %s over %s and its reverse complement n=%d" % (role, e, F + s), ob_typing,
                              dict(role=role, enzyme=e, n=F + s), samples=4, cost=(F + s) ** 3,
                              expect_witness=("accepted", "rejected")))
        _g = Geometry(getattr(__import__("Bio.Restriction", fromlist=[e]), e))
        if _g.ovl >= 2 and all(ch in "ACGT" for ch in _g.site):  # (the template plasmids spell the site out literally)
            # (three pairwise distinct, pairwise non-complementary 1-nt cohesive ends do not exist)
            obs.append(Ob("end-to-end %s chain=2 vs reverse complements" % e, ob_e2e, dict(enzyme=e), samples=3, cost=3000))
    # cutters leaving a 3' overhang (supported since fix 297887b): the typing half of the statement
    for e, role in tier_pick(tier, [("BsrDI", "vector"), ("BsrDI", "module")],
                             [("BsrDI", "vector"), ("BsrDI", "module"), ("BciVI", "vector"), ("BciVI", "module"), ("BseRI", "module")]):
        F = fixed_letters(generic_class(st, role, e).structure())
        obs.append(Ob("typing generic %s over %s (3' overhang) and its reverse complement n=%d" % (role, e, F + 1), ob_typing,
                      dict(role=role, enzyme=e, n=F + 1), samples=4, cost=(F + 1) ** 3, expect_witness=("accepted", "rejected"),
                      group="3' overhang"))
    from symx.core import code_of as _code

    for m in (1, 2):
        obs.append(Ob("walk m=%d vs reverse complements, junctions may contain the unknown base N" % m, ob_walk,
                      dict(m=m, shuffle=False, alphabet=[0, 1, 2, 3, _code("N")]), samples=6, cost=30 ** m, group="unknown bases",
                      expect_witness=("junction-with-N",)))
    for m in range(1, tier_pick(tier, 3, 4) + 1):
        for shuffle in (False, True):
            if m == 1 and shuffle:
                continue
            obs.append(Ob("walk m=%d vs reverse complements%s" % (m, " (rotated args)" if shuffle else ""), ob_walk,
                          dict(m=m, shuffle=shuffle), samples=6, cost=20 ** m))
    return obs
