# C09 - the product records its provenance.
# Code executed symbolically: AssemblyManager._annotate_assembly/_generate_assembly, add_as_source,
# target_sequence on pre-set symbolic spans, CircularRecord wrap; two-level re-use of a product.
from .common import *
from .annot import *
from .c08 import tags

ID = "C09"
LEVEL_TEXT = ("Bounded verification by symbolic execution of the real assembly and provenance code with position-tag letters and "
              "symbolic match spans: on every path the product is a CircularRecord with the requested id/name, circular topology "
              "and a comment naming the vector and every supplied module; its generated source features are one per retained "
              "fragment, tile [0, N) exactly, and each covers consecutive nucleotides (modulo the length) of the plasmid its "
              "qualifier names; when the product is re-used as a module with arbitrary spans, every surviving inner source "
              "feature lies inside the outer one and still denotes a verbatim stretch of the plasmid it names.  Bounded claim.")
LEVEL_NOTE = ("Bounds: 1-2 modules + vector, record length n<=10 for the element with symbolic spans (others concrete), two "
              "levels. GenBank clause: what moclo must provide for it (molecule type, circular topology, every feature located inside "
              "the product, requested id/name) is decided symbolically; the write/read itself (Biopython's writer/parser) cannot be "
              "executed symbolically and is exercised only on the concrete samples and replays that run on the real stack - sampling, "
              "not part of the solver's claim. Trusted: z3, CPython, symx models.")
LEVEL_NOTE_EXTRA = 'a product whose id equals an input id or the default id; the same objects assembled twice; a superfluous module; eleven shapes of requested id/name; GenBank pre-conditions. Also: input ids ending in b/g/., long hyphenated ids; the GenBank write/read runs on the real stack only (concrete samples).'
TECHNIQUE = "bounded symbolic execution of the real Python source (symx) with z3 on symbolic match spans; position-tag letters; replay on the real stack"
EXPLANATION = "tiling and verbatim-origin of the generated source features are arithmetic statements over symbolic spans decided by z3"
ASSUMPTIONS = [
    "match spans arbitrary with s1<=e1<=e2<=e3<=s1+n, s1<n for one element at a time; overhangs given",
    "letters are pairwise distinct tags, distinct across plasmids",
    "GenBank serialisation itself (Bio.SeqIO) is not symbolic: only its pre-conditions on the product are; the real write/read runs on concrete samples",
]


def bounds(tier):
    return dict(n_max=tier_pick(tier, 8, 12), modules_max=2, levels=2)


def sym_spans(ctx, tag, n):
    mk = ctx.mk
    s1 = mk.int(tag + "s1", 0, n - 1)
    d1 = mk.int(tag + "d1", 0, n)
    d2 = mk.int(tag + "d2", 0, n)
    d3 = mk.int(tag + "d3", 0, n)
    ctx.assume(d1 + d2 + d3 <= n)
    return s1, s1 + d1, s1 + d1 + d2, s1 + d1 + d2 + d3


def frag_geometry(role, sp, n):
    s1, e1, e2, e3 = sp
    return (s1, e2 - s1) if role == "module" else (e2, s1 + n - e2)


def check_sources(ctx, prod, N, plasmids, label):
    """source features tile [0,N) and cover verbatim stretches of the plasmids they name"""
    ps = sdata(prod.seq)
    src = [f for f in prod.features if f.type == "source"]
    cover = []
    for f in src:
        pp = parts_of(f)
        ctx.require(len(pp) == 1, label + ":source-feature-not-simple")
        a, b = ival(pp[0][0]), ival(pp[0][1])
        name = f.qualifiers.get("plasmid")
        ctx.require(name in plasmids, label + ":source-names-unknown-plasmid")
        data, n = plasmids[name]
        codes = SSeq.const(data)
        ctx.require(And(0 <= a, a <= b, b <= N), label + ":source-out-of-range")
        # verbatim: consecutive letters of the named plasmid modulo its length
        alts = []
        for st0 in range(n):
            alts.append(And([Implies(j < b - a, Eq(sat(ps, a + j), codes.get((st0 + j) % n))) for j in range(min(N, n))]))
        ctx.require(And(b - a <= n, Or(alts)), label + ":source-not-a-verbatim-stretch-of-%s" % name)
        cover.append((a, b))
    return src, cover


def sorted_cover(cover):
    # covers are compared position-wise in the order the features appear (chain order)
    return list(cover)


def ob_provenance(ctx):
    st = ctx.stack
    P = ctx.P
    m, n = P["m"], P["n"]
    Mod, Vec = sliced_classes(st)
    O = ["AA", "CC", "GG", "TC"]
    plasmids, ents, geo = {}, [], []
    for i in range(m + 1):
        role = "module" if i < m else "vector"
        name = P["ids"][i]
        if i == P["sym"]:
            ni = n
            sp = sym_spans(ctx, "e%d_" % i, ni)
        else:
            ni = 9
            sp = (2, 3, 6, 7)
        data = tags(ni, 12 * i)
        plasmids[name] = (data, ni)
        rec = st.record.CircularRecord(st.Seq(data), id=name, name="nm%d" % i)
        cls = Mod if i < m else Vec
        ents.append(cls(rec, st.Seq(O[i] if i < m else O[m]), st.Seq(O[i + 1] if i < m else O[0]), module_spans(*sp)))
        geo.append(frag_geometry(role, sp, ni))
    vec, mods = ents[m], ents[:m]
    if P.get("labels"):
        # the requested identifier and name are arbitrary strings: one path per shape of label (long, with blanks,
        # at and around the widths of a GenBank LOCUS line, empty, non-ASCII)
        which = ctx.mk.pick("label", len(LABELS))
        P = dict(P, pid=LABELS[which][0], pname=LABELS[which][1])
    prod = vec.assemble(*mods, id=P["pid"], name=P["pname"])
    ctx.observe("prod", prod)
    ctx.require(isinstance(prod, st.record.CircularRecord), "product-type")
    ctx.require(prod.id == P["pid"] and prod.name == P["pname"], "id-or-name")
    ann = prod.annotations
    ctx.require(isinstance(ann.get("topology"), str) and ann["topology"].lower() == "circular", "topology")
    comment = ann.get("comment")
    text = "\n".join(comment) if isinstance(comment, (list, tuple)) else str(comment)
    ctx.require(all(pid in text for pid in P["ids"]), "comment-does-not-name-every-input")
    N = sum(g[1] for g in geo)
    ctx.require(Eq(slen(sdata(prod.seq)), N), "product-length")
    src, cover = check_sources(ctx, prod, N, plasmids, "level1")
    ctx.require(len(src) == m + 1, "one-source-feature-per-fragment:%d" % len(src))
    # tiling: in chain order the fragments are modules 0..m-1 then the vector
    off = 0
    names = [f.qualifiers.get("plasmid") for f in src]
    for i in range(m + 1):
        ctx.require(P["ids"][i] in names, "fragment-%d-has-no-source-feature" % i)
        a, b = cover[names.index(P["ids"][i])]
        ctx.require(And(Eq(a, off), Eq(b, off + geo[i][1])), "source-features-do-not-tile-the-product")
        off = off + geo[i][1]
    ctx.witness("empty-fragment", Or([Eq(g[1], 0) for g in geo]))
    # a library built in one destination vector: the same objects assembled again carry the same provenance
    prod_b = vec.assemble(*mods, id=P["pid"], name=P["pname"])
    src_b, cover_b = check_sources(ctx, prod_b, N, plasmids, "repeat")
    ctx.require(len(src_b) == m + 1, "repeated-assembly:one-source-feature-per-fragment:%d" % len(src_b))
    ctx.require(And([And(Eq(a, c), Eq(b, d)) for (a, b), (c, d) in zip(sorted_cover(cover), sorted_cover(cover_b))]),
                "repeated-assembly:source-features-moved")
    if not P["level2"]:
        return True
    # level 2: the product (concrete length needed) re-used as a module with arbitrary spans
    if not isinstance(N, int):
        return True
    sp2 = sym_spans(ctx, "L2_", N)
    pdata = sdata(prod.seq)
    inner = Mod(prod, st.Seq("AA"), st.Seq("CC"), module_spans(*sp2))
    v2data = tags(9, 50)
    plasmids2 = dict(plasmids)
    plasmids2["vec2"] = (v2data, 9)
    vec2 = Vec(st.record.CircularRecord(st.Seq(v2data), id="vec2"), st.Seq("CC"), st.Seq("AA"), module_spans(2, 3, 6, 7))
    prod2 = vec2.assemble(inner, id="L2", name="L2")
    a0, flen = frag_geometry("module", sp2, N)
    N2 = flen + 5
    ctx.require(Eq(slen(sdata(prod2.seq)), N2), "level2-length")
    # the fragment cut out of the level-1 product must carry ONE generated source feature naming that product and
    # covering the whole fragment (even when the product's id coincides with the id of one of its own inputs)
    named = [f for f in prod2.features if f.type == "source" and f.qualifiers.get("plasmid") == P["pid"]]
    outer = [f for f in named if bool(And(Eq(ival(parts_of(f)[0][0]), 0), Eq(ival(parts_of(f)[0][1]), flen)))]
    ctx.require(len(outer) >= 1, "level2-outer-source-feature-missing")
    oa, ob_ = 0, flen
    vsrc = [f for f in prod2.features if f.type == "source" and f.qualifiers.get("plasmid") == "vec2"]
    ctx.require(len(vsrc) == 1 and bool(And(Eq(ival(parts_of(vsrc[0])[0][0]), flen), Eq(ival(parts_of(vsrc[0])[0][1]), N2))),
                "level2-vector-source-extent")
    p2 = sdata(prod2.seq)
    pdata_str = pdata if isinstance(pdata, str) else None
    for f in prod2.features:
        if f.type != "source" or f is outer[0] or f is vsrc[0]:
            continue
        nm = f.qualifiers.get("plasmid")
        a, b = ival(parts_of(f)[0][0]), ival(parts_of(f)[0][1])
        ctx.require(nm in plasmids, "level2-unknown-inner-source")
        ctx.require(And(oa <= a, b <= ob_), "inner-source-not-nested-in-outer")
        data, ni = plasmids[nm]
        codes = SSeq.const(data)
        alts = [And([Implies(j < b - a, Eq(sat(p2, a + j), codes.get((s0 + j) % ni))) for j in range(min(ni, N2))])
                for s0 in range(ni)]
        ctx.require(And(b - a <= ni, Or(alts)), "inner-source-not-verbatim")
        ctx.witness("inner-source-survives")
    # tiling at the outer level: exactly the outer feature + the vector's cover the product
    return True


def ob_genbank(ctx):
    """the product is a complete GenBank record.  What moclo must provide for that is decided symbolically on both
    stacks (molecule type, circular topology, every feature located inside the product, a legal id); the write/read
    itself (Biopython's serialiser and parser) only runs on the real stack, i.e. in the concrete differential runs and
    in replays."""
    st = ctx.stack
    P = ctx.P
    m, n = P["m"], P["n"]
    Mod, Vec = sliced_classes(st)
    O = ["AA", "CC", "GG", "TC"]
    ents = []
    for i in range(m + 1):
        data = ctx.mk.seq("d%d" % i, n, "ACGT")
        sp = sym_spans(ctx, "e%d_" % i, n) if i == P["sym"] else (1, 2, n - 2, n - 1)
        parts = mk_parts(ctx, "f%d" % i, 1, n) if i == P["sym"] else [(2, 3, 1)]
        feat = build_feature(st, parts, "CDS", {"label": ["cds%d" % i], "note": ["a note"]}, fid="F%d" % i)
        rec = st.record.CircularRecord(st.Seq(data), id="in%d" % i, name="in%d" % i, features=[feat],
                                       annotations={"topology": "circular", "molecule_type": "DNA"})
        cls = Mod if i < m else Vec
        ents.append(cls(rec, st.Seq(O[i] if i < m else O[m]), st.Seq(O[i + 1] if i < m else O[0]), module_spans(*sp)))
    prod = ents[m].assemble(*ents[:m], id=P["pid"], name=P["pname"])
    ctx.observe("prod", prod)
    N = slen(sdata(prod.seq))
    ann = prod.annotations
    ctx.require(isinstance(ann.get("molecule_type"), str) and "DNA" in ann["molecule_type"], "no-molecule-type")
    ctx.require(isinstance(ann.get("topology"), str) and ann["topology"].lower() == "circular", "topology")
    ctx.require(prod.id == P["pid"] and prod.name == P["pname"], "id-or-name")
    for f in prod.features:
        ctx.require(f.location is not None, "feature-without-location")
        for (a, b, stx) in parts_of(f):
            ctx.require(And(0 <= ival(a), ival(a) <= ival(b), ival(b) <= N), "feature-outside-the-product")
    ctx.witness("inherited-feature", any(f.type == "CDS" for f in prod.features))
    ctx.witness("empty-product", Eq(N, 0))
    if st.kind == "real" and N > 0:
        import io
        from Bio import SeqIO

        buf = io.StringIO()
        SeqIO.write([prod], buf, "genbank")
        back = SeqIO.read(io.StringIO(buf.getvalue()), "genbank")
        ctx.require(str(back.seq).upper() == str(prod.seq).upper(), "genbank-round-trip:sequence")
        ctx.require(back.annotations.get("topology") == "circular", "genbank-round-trip:topology")
        ctx.require(back.id.split(".")[0] == P["pid"].split(".")[0] and back.name == P["pname"], "genbank-round-trip:id-or-name")
        def image(f):
            # GenBank has no notation for "no strand": strandless locations are read back as forward ones
            return (f.type, [(int(p.start), int(p.end), -1 if p.strand == -1 else 1) for p in f.location.parts])

        want = sorted(image(f) for f in prod.features)
        got = sorted(image(f) for f in back.features)
        ctx.require(want == got, "genbank-round-trip:features %s vs %s" % (want, got))
    return True


def ob_unused_named(ctx):
    """an assembly that succeeds with a superfluous module (UnusedModules warning) still names every supplied module"""
    st = ctx.stack
    Mod, Vec = sliced_classes(st)
    import warnings

    sp = (2, 3, 6, 7)
    recs = [st.record.CircularRecord(st.Seq(tags(9, 12 * i)), id=nm) for i, nm in enumerate(["used-1", "spare-2", "vec-3"])]
    o_extra = ctx.mk.seq("ox", 2, "ACGT")
    ctx.assume(And(Not(seq_eq(o_extra, "AA")), Not(seq_eq(o_extra, "CC")), Not(seq_eq(o_extra, "TT")), Not(seq_eq(o_extra, "GG")),
                   Not(seq_eq(o_extra, "AT")), Not(seq_eq(o_extra, "TA")), Not(seq_eq(o_extra, "CG")), Not(seq_eq(o_extra, "GC"))))
    used = Mod(recs[0], st.Seq("AA"), st.Seq("CC"), module_spans(*sp))
    spare = Mod(recs[1], st.Seq(o_extra), st.Seq("CC"), module_spans(*sp))
    vec = Vec(recs[2], st.Seq("CC"), st.Seq("AA"), module_spans(*sp))
    with warnings.catch_warnings(record=True) as caught:
        warnings.simplefilter("always")
        prod = vec.assemble(*([spare, used] if ctx.P["spare_first"] else [used, spare]), id="p", name="p")
    ctx.require(any(isinstance(w.message, st.errors.UnusedModules) for w in caught), "no-unused-warning")
    comment = prod.annotations.get("comment")
    text = "\n".join(comment) if isinstance(comment, (list, tuple)) else str(comment)
    ctx.require(all(nm in text for nm in ("used-1", "spare-2", "vec-3")), "comment-does-not-name-every-supplied-module")
    src = [f for f in prod.features if f.type == "source"]
    ctx.require(sorted(f.qualifiers.get("plasmid") for f in src) == ["used-1", "vec-3"], "source-features-of-an-unused-module")
    return True


LABELS = [("p", "n"), ("a-rather-long-accession.number.12", "a product name that is far longer than a locus line"),
          ("X" * 16, "Y" * 16), ("X" * 17, "Y" * 17), ("id with blanks", "name with blanks"), ("Z" * 27, "W" * 25),
          ("Z" * 28, "W" * 28), ("Q" * 29, "R" * 64), ("", ""), ("pl\u00e4smid", "n\u00e4me"), ("assembly", "assembly")]


def obligations(tier, seed):
    obs = []
    idsets = [["mod-A", "mod_B", "the.vector"], ["m0", "m1", "v"]]
    # identifiers are arbitrary labels: endings a string clean-up could mistake for a file extension or a version
    odd_ids = [["pJ23100-rbs_b", "lib.gb", "dialog."], ["x.1", "seq.fasta", "b"],
               ["pBP-ORF-eGFP-linker-mCherry-NLS-degron-v2", "pTU1-A-lacZ-alpha-fragment-RFP-dropout-v3", "pDVK-AE-kanR-backbone"]]
    for m in (1, 2):
        for sym in range(m + 1):
            for n in ([4, tier_pick(tier, 8, 12)] if tier == "quick" else range(2, 13, 2)):
                ids = (idsets[n % 2][:m] + [idsets[n % 2][2]])
                obs.append(Ob("provenance m=%d symbolic spans in element %d n=%d" % (m, sym, n), ob_provenance,
                              dict(m=m, sym=sym, n=n, ids=ids, pid="prod.1", pname="my product", level2=False),
                              samples=5, cost=n * n * 30))
    for k, ids in enumerate(odd_ids):
        obs.append(Ob("provenance m=2 with input ids %s" % ids, ob_provenance,
                      dict(m=2, sym=0, n=6, ids=ids, pid="prod.gb", pname="prod", level2=False), samples=5, cost=1200,
                      group="ids"))
    for m in (1, 2):
        obs.append(Ob("requested id and name of every shape m=%d" % m, ob_provenance,
                      dict(m=m, sym=-1, n=9, ids=idsets[0][:m] + [idsets[0][2]], pid="?", pname="?", level2=False, labels=True),
                      samples=len(LABELS), cost=300, group="labels"))
    for m in (1, 2):
        for sym in range(m + 1):
            if tier == "quick" and m == 2 and sym == 1:
                continue
            obs.append(Ob("GenBank-complete product m=%d symbolic spans and feature in element %d" % (m, sym), ob_genbank,
                          dict(m=m, sym=sym, n=tier_pick(tier, 8, 11), pid="pMC_01.1", pname="pMC_01"), samples=10,
                          cost=6000, group="genbank", expect_witness=("inherited-feature",)))
    for spare_first in (False, True):
        obs.append(Ob("superfluous module still named (spare %s)" % ("first" if spare_first else "last"), ob_unused_named,
                      dict(spare_first=spare_first), samples=4, cost=100))
    for m in (1, 2):
        for pid in ("lvl1", idsets[0][0], "assembly"):
            ids = idsets[0][:m] + [idsets[0][2]]
            if pid == "assembly":
                ids = ["assembly"] + ids[1:]
            obs.append(Ob("two-level re-use m=%d (product id %r, inputs %s)" % (m, pid, ids), ob_provenance,
                          dict(m=m, sym=-1, n=9, ids=ids, pid=pid, pname="lvl1", level2=True),
                          samples=5, cost=4000))
    return obs
