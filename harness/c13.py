# C13 - rotation of a circular record is a lossless group action.
# Code executed symbolically: CircularRecord.__rshift__, __lshift__, __init__ (re-wrap) from
# /repo/moclo/moclo/record.py, over the SeqRecord/SeqFeature models.
from .common import *

ID = "C13"
LEVEL_TEXT = ("Bounded verification by symbolic execution of the real CircularRecord.__rshift__/__lshift__: for every record "
              "length up to the bound, z3 shows that no letters, no rotation amounts k,k2 in Z, no feature coordinates/strands "
              "(1-3 parts, simple/compound/origin-spanning/whole-length) and no per-letter values violate any clause "
              "(sequence, composition, identity, inverse, feature denotation, tracks, metadata). A bounded claim, not a proof.")
LEVEL_NOTE = ("Bounds: n<=24 quick / n<=40 thorough (k case-split by residue above n=10), 1 feature with <=2 (quick) / <=3 (thorough) parts, one track; k unbounded. "
              "Trusted: z3, CPython, symx models of Bio.Seq/SeqRecord/SeqFeature (validated differentially against Biopython 1.88 "
              "on every run; counterexamples are replayed on the real library before being reported).")
LEVEL_NOTE_EXTRA = 'Also: a record rotated before and edited in place; qualifier values of several Python types; locations combined by order(...) and with open ends.'
TECHNIQUE = "bounded symbolic execution of the real Python source (symx re-execution engine) with z3 deciding every branch and assertion; length case-split; replay on the real stack"
EXPLANATION = (
    "bounded symbolic execution (symx + z3) of the real CircularRecord.__rshift__/__lshift__: record length n is "
    "case-split (one obligation per n), letters, the rotation amounts k,k2 (unbounded integers), every feature "
    "coordinate/strand and every per-letter annotation value are symbolic; each clause of the property is an "
    "assertion whose negation must be unsat on every feasible path")
ASSUMPTIONS = [
    "record length 1 <= n <= bound (case split, every n decided separately)",
    "feature parts lie in the producible domain 0 <= start < n, start <= end <= start + n (what a GenBank parser or "
    "moclo's own >> can produce); strands in {-1,0,+1} symbolic or None",
    "Bio.SeqRecord/SeqFeature/Seq replaced by statement-level models validated against Biopython on every run",
    "qualifiers/annotations/dbxrefs are concrete containers (their identity and content are compared exactly)",
]


def bounds(tier):
    return dict(n_max=tier_pick(tier, 24, 40), parts_max=tier_pick(tier, 2, 3), k="unbounded integer",
                features=1, tracks=1)


def _make(ctx, n, nparts, ftype, strand):
    st = ctx.stack
    r = ctx.mk.seq("r", n, "ACGT")
    parts = mk_parts(ctx, "f", nparts, n, strand=strand)
    if ftype == "source":
        pass
    # qualifier values as a parser gives them (lists of strings) and as scripts write them (plain string, number, tuple)
    quals = QUALS()
    feat = build_feature(st, parts, ftype, QUALS(), fid="fid1", operator=ctx.P.get("operator", "join"), fuzzy=ctx.P.get("fuzzy"))
    track = ctx.mk.track("q", n)
    ann = {"topology": "circular", "organism": "E. coli", "k": [1, 2]}
    if ctx.P.get("history"):
        # the record had another life before: other letters, no feature; it was rotated (by amounts the caller passes in
        # `history`), then edited in place into the state the clauses are about.  A record is what it holds now.
        r0 = ctx.mk.seq("r0", n, "ACGT")
        rec = st.record.CircularRecord(st.Seq(r0), id="rid", name="rname", description="rdesc",
                                       dbxrefs=["db:1"], features=[], annotations=ann,
                                       letter_annotations={"phred": track})
        for k0 in _same_amount_before(ctx, n):
            rec >> k0
            rec << (-k0)
        rec.seq = st.Seq(r)
        rec.features.append(feat)
        return r, parts, quals, track, ann, rec
    rec = st.record.CircularRecord(st.Seq(r), id="rid", name="rname", description="rdesc",
                                   dbxrefs=["db:1"], features=[feat], annotations=ann,
                                   letter_annotations={"phred": track})
    return r, parts, quals, track, ann, rec


def QUALS():
    return {"label": ["L"], "note": ["x", "y"], "plain": "AmpR terminator", "number": 7, "pair": ("a", "b"), "empty": []}


def _rotation_amount(ctx, name, n):
    """an arbitrary integer; for larger n it is written k = rho + q*n with the residue rho case-split (one path
    family per residue) and q an unbounded integer, which keeps every index concrete"""
    if n <= SPLIT_FROM:
        return ctx.mk.int(name)
    rho = ctx.mk.pick(name + "_rho", n)
    q = ctx.mk.int(name + "_q")
    return rho + q * n


SPLIT_FROM = 10


def _same_denotation(ctx, old_parts, new_parts, shift, n, label):
    """every new part has the old length and strand and starts at old start + shift (mod n)"""
    ctx.require(len(new_parts) == len(old_parts), label + ":part-count")
    for j, ((s, e, stx), (s2, e2, st2)) in enumerate(zip(old_parts, new_parts)):
        s2, e2 = ival(s2), ival(e2)
        ctx.require(Eq(e2 - s2, e - s), "%s:part%d-length" % (label, j))
        ctx.require(strand_eq(st2, stx), "%s:part%d-strand" % (label, j))
        # a part covering the whole circle denotes every nucleotide wherever it starts
        ctx.require(Implies(And(e > s, e - s < n), Eq(mod(s2 - s - shift, n), 0)),
                    "%s:part%d-position" % (label, j))


def _same_amount_before(ctx, n):
    """earlier rotations of the same object by the amount asked now and by a congruent one"""
    k = _rotation_amount(ctx, "k", n)
    ctx.shared_k = k
    return [k, k + n]


def ob_rotate(ctx):
    P = ctx.P
    n = P["n"]
    st = ctx.stack
    r, parts, quals, track, ann, rec = _make(ctx, n, P["parts"], P["ftype"], P["strand"])
    k = ctx.shared_k if P.get("history") else _rotation_amount(ctx, "k", n)
    out = rec >> k
    ctx.observe("out", out)
    ctx.require(isinstance(out, st.record.CircularRecord), "type")
    o = sdata(out.seq)
    ctx.require(Eq(slen(o), n), "seq-length")
    ctx.require(And([Eq(sat(o, j), circ(r, j - k, n)) for j in range(n)]), "seq-letter")
    # features
    ctx.require(len(out.features) == 1, "feature-count")
    g = out.features[0]
    ctx.require(g.type == P["ftype"] and g.id == "fid1", "feature-type-id")
    ctx.require(quals_equal(g.qualifiers, quals), "feature-qualifiers")
    _same_denotation(ctx, parts, parts_of(g), k, n, "feature")
    # the rest of the location's shape: how its parts are combined (join/order) and which ends are open ('<5', '>9')
    if len(parts) > 1:
        ctx.require(getattr(g.location, "operator", None) == P.get("operator", "join"), "location-operator-changed")
    if P.get("fuzzy"):
        want = [({"e": "exact", "b": "before", "a": "after"}[fz[0]], {"e": "exact", "b": "before", "a": "after"}[fz[1]])
                for fz in P["fuzzy"]]
        ctx.require(location_kinds(g) == want, "open-ended-position-became-exact")
    # identity on multiples of n: coordinates unchanged
    kz = Eq(mod(k, n), 0)
    for (s, e, _), (s2, e2, _) in zip(parts, parts_of(g)):
        ctx.require(Implies(kz, And(Eq(ival(s2), s), Eq(ival(e2), e))), "identity-coordinates")
    # per-letter annotations follow their letters
    la = out.letter_annotations
    ctx.require(list(la.keys()) == ["phred"], "track-keys")
    t2 = la["phred"]
    ctx.require(Eq(_tlen(t2), n), "track-length")
    ctx.require(And([Eq(_tat(t2, j), _tat(track, mod(j - k, n))) for j in range(n)]), "track-value")
    # identifiers and annotations carried over
    ctx.require(out.id == "rid" and out.name == "rname" and out.description == "rdesc", "ids")
    ctx.require(list(out.dbxrefs) == ["db:1"], "dbxrefs")
    ctx.require(dict(out.annotations) == {"topology": "circular", "organism": "E. coli", "k": [1, 2]},
                "annotations")
    # rotation builds a new record: the receiver keeps its sequence, coordinates, qualifiers and track
    ctx.require(seq_eq(rec.seq, r), "receiver-sequence-changed")
    ctx.require(len(rec.features) == 1 and quals_equal(rec.features[0].qualifiers, quals), "receiver-features-changed")
    for (s, e, stx), (s2, e2, st2) in zip(parts, parts_of(rec.features[0])):
        ctx.require(And(Eq(ival(s2), s), Eq(ival(e2), e), strand_eq(st2, stx)), "receiver-coordinates-changed")
    ctx.require(_tracks_eq(rec.letter_annotations["phred"], track, n), "receiver-track-changed")
    ctx.witness("k-negative", k < 0)
    ctx.witness("k-beyond-length", k > n)
    if P["parts"] >= 1:
        s0, e0, _ = parts[0]
        ctx.witness("part-rewrapped", s0 + mod(k, n) >= n)
        ctx.witness("part-crosses-end", And(s0 + mod(k, n) < n, e0 + mod(k, n) > n))
        ctx.witness("whole-length-part", Eq(e0 - s0, n))
    return True


def _tat(t, j):
    if isinstance(t, SSeq):
        return t.get(j)
    if isinstance(j, int):
        return t[j]
    raise RuntimeError("symbolic index into a concrete track")


def _tlen(t):
    return t.n if isinstance(t, SSeq) else len(t)


def _tracks_eq(a, b, n):
    return And([Eq(_tat(a, j), _tat(b, j)) for j in range(n)])


def ob_compose(ctx):
    """(r >> k) >> k2 == r >> (k + k2)"""
    P = ctx.P
    n = P["n"]
    r, parts, quals, track, ann, rec = _make(ctx, n, P["parts"], P["ftype"], P["strand"])
    k = ctx.mk.int("k")
    k2 = ctx.mk.int("k2")
    a = (rec >> k) >> k2
    b = rec >> (k + k2)
    ctx.observe("a", a)
    ctx.observe("b", b)
    ctx.require(seq_eq(a.seq, b.seq), "compose-seq")
    _same_denotation(ctx, parts_of(b.features[0]), parts_of(a.features[0]), 0, n, "compose-feature")
    ctx.require(_tracks_eq(a.letter_annotations["phred"], b.letter_annotations["phred"], n), "compose-track")
    ctx.witness("compose-wraps", mod(k, n) + mod(k2, n) >= n)
    return True


def ob_inverse(ctx):
    """(r >> k) << k == r;  r << k == r >> -k"""
    P = ctx.P
    n = P["n"]
    r, parts, quals, track, ann, rec = _make(ctx, n, P["parts"], P["ftype"], P["strand"])
    k = ctx.mk.int("k")
    if P["which"] == "inverse":
        c = (rec >> k) << k
        ctx.observe("c", c)
        ctx.require(seq_eq(c.seq, r), "inverse-seq")
        _same_denotation(ctx, parts, parts_of(c.features[0]), 0, n, "inverse-feature")
        ctx.require(_tracks_eq(c.letter_annotations["phred"], track, n), "inverse-track")
    else:
        d = rec << k
        e = rec >> (-k)
        ctx.observe("d", d)
        ctx.require(seq_eq(d.seq, e.seq), "lshift-seq")
        o = sdata(d.seq)
        ctx.require(And([Eq(sat(o, j), circ(r, j + k, n)) for j in range(n)]), "lshift-letter")
        _same_denotation(ctx, parts_of(e.features[0]), parts_of(d.features[0]), 0, n, "lshift-feature")
        _same_denotation(ctx, parts, parts_of(d.features[0]), -k, n, "lshift-feature-position")
        ctx.require(_tracks_eq(d.letter_annotations["phred"], e.letter_annotations["phred"], n), "lshift-track")
    return True


def ob_nofeature_location(ctx):
    """features without a location and records without tracks survive rotation"""
    P = ctx.P
    n = P["n"]
    st = ctx.stack
    r = ctx.mk.seq("r", n, "ACGT")
    k = ctx.mk.int("k")
    f0 = st.SeqFeature(None, type="misc", qualifiers={"a": ["b"]})
    rec = st.record.CircularRecord(st.Seq(r), id="x", features=[f0])
    out = rec >> k
    ctx.require(len(out.features) == 1 and out.features[0].location is None
                and out.features[0].type == "misc" and dict(out.features[0].qualifiers) == {"a": ["b"]},
                "locationless-feature")
    o = sdata(out.seq)
    ctx.require(And([Eq(sat(o, j), circ(r, j - k, n)) for j in range(n)]), "seq-letter")
    ctx.require(dict(out.letter_annotations) == {}, "no-tracks")
    return True


def obligations(tier, seed):
    obs = []
    nmax = tier_pick(tier, 24, 40)
    pmax = tier_pick(tier, 2, 3)
    for n in range(1, nmax + 1):
        for parts in range(1, pmax + 1):
            if parts == 3 and n > 20:
                continue
            for ftype in ("misc_feature", "source"):
                if ftype == "source" and parts > 1 and tier == "quick" and n % 2:
                    continue
                strand = "sym"
                if ftype == "misc_feature" and parts == 1 and n % 3 == 0:
                    strand = None
                obs.append(Ob("rotate n=%d parts=%d type=%s strand=%s" % (n, parts, ftype, strand), ob_rotate,
                              dict(n=n, parts=parts, ftype=ftype, strand=strand), samples=4,
                              cost=n * parts * parts))
    cmax = tier_pick(tier, 10, 16)
    for n in range(1, cmax + 1):
        for parts in range(1, 3):
            if parts == 2 and n > tier_pick(tier, 8, 12):
                continue
            ft = "source" if n % 2 else "CDS"
            obs.append(Ob("compose n=%d parts=%d" % (n, parts), ob_compose,
                          dict(n=n, parts=parts, ftype=ft, strand="sym"), samples=4,
                          cost=6 * n * parts ** 3))
            for which in ("inverse", "lshift"):
                obs.append(Ob("%s n=%d parts=%d" % (which, n, parts), ob_inverse,
                              dict(n=n, parts=parts, ftype=ft, strand="sym", which=which), samples=4,
                              cost=4 * n * parts ** 3))
    for n in tier_pick(tier, (3, 8), (2, 5, 9, 14)):
        obs.append(Ob("rotate a record that was rotated, then edited in place n=%d" % n, ob_rotate,
                      dict(n=n, parts=1, ftype="misc_feature", strand="sym", history=True), samples=4,
                      cost=3 * n, group="history"))
    for n in tier_pick(tier, (5, 9), (4, 7, 12, 18)):
        obs.append(Ob("rotate n=%d parts=2 combined by order(...)" % n, ob_rotate,
                      dict(n=n, parts=2, ftype="misc_feature", strand="sym", operator="order"), samples=4, cost=4 * n,
                      group="location shape"))
        obs.append(Ob("rotate n=%d parts=1 with open ends <s..>e" % n, ob_rotate,
                      dict(n=n, parts=1, ftype="misc_feature", strand="sym", fuzzy=["ba"]), samples=4, cost=n,
                      group="location shape"))
        obs.append(Ob("rotate n=%d parts=2 with open ends <s..e, s..>e" % n, ob_rotate,
                      dict(n=n, parts=2, ftype="CDS", strand="sym", fuzzy=["be", "ea"]), samples=4, cost=4 * n,
                      group="location shape"))
    for n in (1, 3, 6):
        obs.append(Ob("locationless n=%d" % n, ob_nofeature_location, dict(n=n), samples=3, cost=n))
    return obs
