# C19 - parts of the same type are interchangeable.
# Code executed symbolically: block W twice (stub modules, one replaced by a same-overhang module
# with another target), and end-to-end with the real generic classes on template plasmids.
from .common import *
from .rblock import *
from .wblock import *
from .c01 import cat, only_sites, rot

ID = "C19"
LEVEL_TEXT = ("Bounded verification by symbolic execution of the real assembly code on two related inputs: (W) stub modules with "
              "symbolic overhangs and symbolic targets, one module replaced by another with equal overhangs but a target of "
              "different symbolic content and length; (E2E) the real generic classes on template plasmids where the replacement "
              "also differs in spacers and backbone.  z3 shows that whenever the first assembly yields a product so does the "
              "second, and that the two products agree byte for byte outside the replaced module's target segment.  Bounded claim.")
LEVEL_NOTE = ("Bounds: W: m<=3 quick / m<=4 thorough, 2-nt overhangs, replaced position symbolic (every position); E2E: BsaI/BbsI/SapI "
              "quick, all geometries thorough, chain 2, either module replaced. The registry clause (same-type pairs of the bundled "
              "registries) is enumeration of concrete records and is not claimed. Trusted: z3, CPython, symx models.")
LEVEL_NOTE_EXTRA = "the replacement is presented at every rotation; typed parts with a replacement filed under the same accession while the first assembly's parts are alive. Also: a replacement with 12 references and a citing feature; fragments with per-letter values (replacement: none/list/tuple); the first module listed twice in both calls."
TECHNIQUE = "bounded symbolic execution of the real Python source (symx) with z3; relational (two-run) obligation; replay on the real stack"
EXPLANATION = "two assemblies on one path; the second differs from the first by one same-signature module; products compared segment-wise"
ASSUMPTIONS = [
    "W: modules are stubs with symbolic overhangs/targets (the walk reads overhangs and fragments only)",
    "E2E: plasmids of the formal definition with exactly two sites each, pairwise distinct cohesive ends",
]


def bounds(tier):
    return dict(W_modules_max=tier_pick(tier, 3, 4), e2e_geometries=tier_pick(tier, 3, 20))


def ob_swap(ctx):
    st = ctx.stack
    P = ctx.P
    m, k = P["m"], 2
    Mod, Vec = stub_classes(st)
    up = ctx.mk.seq("up", k, "ACGT")
    down = ctx.mk.seq("down", k, "ACGT")
    starts = [ctx.mk.seq("s%d" % i, k, "ACGT") for i in range(m)]
    ends = [ctx.mk.seq("e%d" % i, k, "ACGT") for i in range(m)]
    bodies = [ctx.mk.seq("b%d" % i, 1 + i % 3, "ACGT") for i in range(m)]
    vbody = ctx.mk.seq("vb", 3, "ACGT")
    j = ctx.mk.pick("j", m)
    newbody = ctx.mk.seq("nb", P["newlen"], "ACGT")

    def module(i, body, ident, annotated=False):
        rec = st.record.CircularRecord(st.Seq("ACGT"), id=ident)
        if annotated:
            # the sibling comes from a richly annotated GenBank file: a long reference list, one feature citing one entry
            from .annot import make_ref

            R = P["annotated"]
            rec.annotations["references"] = [make_ref(st, "ref-%02d" % q) for q in range(1, R + 1)]
            cit = 1 + ctx.mk.pick("cit", R)
            rec.features.append(st.SeqFeature(st.SimpleLocation(0, 2, strand=1), type="CDS",
                                              qualifiers={"label": ["L"], "citation": ["[%d]" % cit]}))
        def fragment():
            fr = st.SeqRecord(st.Seq(starts[i] + body), id=ident)
            tr = track_kind if ident == "repl" else ("list" if P.get("tracks") else None)
            if tr is not None:
                # sequencing-quality values attached to the letters of the fragment (a list, or a tuple, per record)
                vals = [20 + i] * (k + len(body) if isinstance(body, str) else fr_len(fr))
                fr.letter_annotations["phred_quality"] = vals if tr == "list" else tuple(vals)
            return fr

        return Mod(rec, st.Seq(starts[i]), st.Seq(ends[i]), fragment)

    track_kind = None
    if P.get("tracks"):
        track_kind = [None, "list", "tuple"][ctx.mk.pick("repl_track", 3)]

    def fr_len(fr):
        return slen(sdata(fr.seq))

    def vfragment():
        fr = st.SeqRecord(st.Seq(up + vbody), id="vec")
        if P.get("tracks"):
            fr.letter_annotations["phred_quality"] = [40] * (k + 3)
        return fr

    mods = [module(i, bodies[i], "m%d" % i) for i in range(m)]
    vec = Vec(st.record.CircularRecord(st.Seq("ACGT"), id="vec"), st.Seq(up), st.Seq(down), vfragment)
    def args(ms):
        # a part listed twice in the call is still one part (the very same object)
        return ([ms[0]] + ms) if P.get("twice") else ms

    o1 = run_assemble(st, vec, args(mods))
    ctx.observe("kind", o1["kind"])
    ctx.witness(o1["kind"])
    if o1["kind"] != "product":
        return True
    mods2 = list(mods)
    mods2[j] = module(j, newbody, "repl", annotated=bool(P.get("annotated")))
    o2 = run_assemble(st, vec, args(mods2))
    ctx.require(o2["kind"] == "product", "replacement-fails:" + o2["kind"])
    ref = reference_walk(codes(up, k), codes(down, k), [codes(s, k) for s in starts], [codes(e, k) for e in ends], k)
    chain = ref[1] if ref[0] == "product" else []
    p1, p2 = sdata(o1["product"].seq), sdata(o2["product"].seq)
    ctx.observe("products", [p1, p2])
    if j not in chain:
        ctx.require(seq_eq(p1, p2), "unused-replacement-changed-product")
        ctx.witness("replaced-module-unused")
        return True
    before = sum(k + slen(bodies[i]) for i in chain[:chain.index(j)])
    old_len, new_len = k + slen(bodies[j]), k + slen(newbody)
    n1, n2 = slen(p1), slen(p2)
    ctx.require(Eq(n2 - n1, new_len - old_len), "length-difference")
    ctx.require(And([Eq(sat(p1, q), sat(p2, q)) for q in range(before + k)]), "prefix-or-junction-differs")
    ctx.require(And([Eq(sat(p2, before + k + q), sat(newbody, q)) for q in range(slen(newbody))]), "new-target-not-in-place")
    rest = n1 - (before + old_len)
    ctx.require(And([Eq(sat(p1, before + old_len + q), sat(p2, before + new_len + q)) for q in range(rest)]),
                "suffix-differs")
    # whatever per-letter values the product carries, they too may differ only inside the replaced segment
    t1, t2 = o1["product"].letter_annotations, o2["product"].letter_annotations
    for key in t1:
        ctx.require(key in t2, "replacement-strips-per-letter-values-of-the-other-segments")
        a, b = list(t1[key]), list(t2[key])
        ctx.require(a[:before] == b[:before] and a[before + old_len:] == b[before + new_len:],
                    "per-letter-values-of-other-segments-differ")
    ctx.witness("replaced-first", chain.index(j) == 0)
    ctx.witness("replaced-later", chain.index(j) > 0)
    return True


def ob_e2e(ctx):
    st = ctx.stack
    P = ctx.P
    enzyme = P["enzyme"]
    g = Geometry(st.enzyme(enzyme))
    off = g.lo - g.L
    mk = ctx.mk
    c = 2
    o = [mk.seq("o%d" % i, g.ovl, "ACGT") for i in range(c + 1)]
    cs = []
    for i in range(c + 1):
        for jj in range(i + 1, c + 1):
            cs.append(Not(seq_eq(o[i], o[jj])))
    for i in range(c):
        for jj in range(i, c):
            rc = [scomp_code(sat(o[jj], g.ovl - 1 - q)) for q in range(g.ovl)]
            cs.append(Not(And([Eq(sat(o[i], q), rc[q]) for q in range(g.ovl)])))
    ctx.assume(And(cs))

    def module_data(tag, i, tlen, blen):
        x = mk.seq("%sx%d" % (tag, i), off, "ACGT")
        y = mk.seq("%sy%d" % (tag, i), off, "ACGT")
        t = mk.seq("%st%d" % (tag, i), tlen, "ACGT")
        b = mk.seq("%sb%d" % (tag, i), blen, "ACGT")
        d = cat(g.site, x, o[i], t, o[i + 1], y, g.rsite, b)
        only_sites(ctx, d, slen(d), g, {("f", 0), ("r", g.L + off + g.ovl + tlen + g.ovl + off)})
        return d, t

    datas, ts = [], []
    for i in range(c):
        d, t = module_data("m", i, 2 + i, 2)
        datas.append(d)
        ts.append(t)
    j = P["replace"]
    nd, nt = module_data("n", j, P["newlen"], 3)
    # the replacement plasmid is presented at every rotation (its origin may fall inside the site, the overhangs or the target)
    nd = rot(nd, mk.pick("rho", slen(nd)))
    vb = mk.seq("vb", 2, "ACGT")
    vd = cat(o[c], vb, o[0], mk.seq("vy", off, "ACGT"), g.rsite, mk.seq("vp", 2, "ACGT"), g.site, mk.seq("vx", off, "ACGT"))
    rpos = g.ovl + 2 + g.ovl + off
    only_sites(ctx, vd, slen(vd), g, {("r", rpos), ("f", rpos + g.L + 2)})
    Vc = generic_class(st, "vector", enzyme)
    if P.get("typed"):
        # signature-typed part classes; the replacement is a revised plasmid filed under the same accession as the part
        # it replaces, and the parts of the first assembly are still alive when the second one runs
        from .c05 import user_class

        Mc = user_class(st, "module", enzyme, ("N" * g.ovl, "N" * g.ovl))
    else:
        Mc = generic_class(st, "module", enzyme)
    alive = []

    def run(ds):
        mods = [Mc(st.record.CircularRecord(st.Seq(d), id="m%d" % i)) for i, d in enumerate(ds)]
        vec = Vc(st.record.CircularRecord(st.Seq(vd), id="vec"))
        alive.extend(mods + [vec])
        return vec.assemble(*mods)

    p1 = sdata(run(datas).seq)
    ds2 = list(datas)
    ds2[j] = nd
    p2 = sdata(run(ds2).seq)
    ctx.observe("products", [p1, p2])
    before = sum(g.ovl + slen(ts[i]) for i in range(j))
    old_len, new_len = g.ovl + slen(ts[j]), g.ovl + slen(nt)
    n1 = slen(p1)
    ctx.require(Eq(slen(p2) - n1, new_len - old_len), "length-difference")
    ctx.require(And([Eq(sat(p1, q), sat(p2, q)) for q in range(before + g.ovl)]), "prefix-or-junction-differs")
    ctx.require(And([Eq(sat(p2, before + g.ovl + q), sat(nt, q)) for q in range(slen(nt))]), "new-target-not-in-place")
    ctx.require(And([Eq(sat(p1, before + old_len + q), sat(p2, before + new_len + q)) for q in range(n1 - before - old_len)]),
                "suffix-differs")
    return True


def obligations(tier, seed):
    obs = []
    for m in range(1, tier_pick(tier, 3, 4) + 1):
        for newlen in (0, 4):
            obs.append(Ob("swap among m=%d stubs, new target %d nt" % (m, newlen), ob_swap, dict(m=m, newlen=newlen),
                          samples=10, cost=10 ** m, expect_witness=("product",)))
    for m in (1, 2):
        obs.append(Ob("swap among m=%d stubs, the replacement carries 12 references and a citing feature" % m, ob_swap,
                      dict(m=m, newlen=3, annotated=12), samples=10, cost=12 * 10 ** m, expect_witness=("product",), group="annotated"))
    for m in (2, 3):
        obs.append(Ob("swap among m=%d stubs, the first module listed twice in both calls" % m, ob_swap,
                      dict(m=m, newlen=3, twice=True), samples=10, cost=2 * 10 ** m, expect_witness=("product",), group="twice"))
    for m in (2, 3):
        obs.append(Ob("swap among m=%d stubs whose fragments carry per-letter values (replacement: none, list or tuple)" % m, ob_swap,
                      dict(m=m, newlen=3, tracks=True), samples=10, cost=3 * 10 ** m, expect_witness=("product",), group="tracks"))
    names = ["BsaI", "BbsI", "SapI"] if tier == "quick" else [v[0] for k, v in sorted(geometries().items())]
    for e in names:
        for j in (0, 1):
            for newlen in (5, 2):
                obs.append(Ob("end-to-end %s replace module %d (new target %d nt, every rotation of the replacement)" % (e, j, newlen),
                              ob_e2e, dict(enzyme=e, replace=j, newlen=newlen), samples=3, cost=20000))
            if e in ("BsaI", "BbsI"):
                obs.append(Ob("end-to-end %s typed parts, replace module %d by a same-accession revision" % (e, j),
                              ob_e2e, dict(enzyme=e, replace=j, newlen=4, typed=True), samples=3, cost=20000))
    return obs
