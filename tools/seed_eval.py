#!/usr/bin/env python3
"""Confirm a seeded change and run checks against it (development aid).
usage: seed_eval.py <seed-source-dir> <seed-id> <property> [other checks ...]
 - copies patch.diff/demo.py/meta.json to /verif/seeded/<seed-id>/
 - in a scratch worktree: suite passes with the patch, demo fails with it and passes without
 - runs ./check <id> --no-evidence with MOCLO_REPO pointing at the patched scratch worktree"""
import json, os, shutil, subprocess, sys, time

src, sid, checks = sys.argv[1], sys.argv[2], sys.argv[3:]
VERIF = os.path.dirname(os.path.dirname(os.path.abspath(__file__)))
dst = os.path.join(VERIF, "seeded", sid)
os.makedirs(dst, exist_ok=True)
_prev = None
try:
    _prev = json.load(open(os.path.join(dst, "meta.json"))).get("confirmation")
except Exception:
    pass
for f in ("patch.diff", "demo.py", "meta.json"):
    if os.path.exists(os.path.join(src, f)):
        shutil.copy(os.path.join(src, f), os.path.join(dst, f))
wt = "/tmp/wt/confirm_%s" % sid
subprocess.run(["git", "-C", "/repo", "worktree", "remove", "--force", wt], capture_output=True)
subprocess.run(["git", "-C", "/repo", "worktree", "add", "-q", wt, "HEAD"], check=True)
ran = {}
try:
    # the suite first: it also builds the registry archives some demonstrations load
    r = subprocess.run(["git", "-C", wt, "apply", os.path.join(dst, "patch.diff")], capture_output=True, text=True)
    ran["apply"] = r.returncode
    if r.returncode:
        print("patch does not apply:", r.stderr)
    r = subprocess.run(["/venv/bin/python", "-m", "pytest", "-q", "-p", "no:cacheprovider", "--timeout=900"], cwd=wt,
                       capture_output=True, text=True, timeout=1800)
    ran["suite"] = r.stdout.strip().splitlines()[-1] if r.stdout.strip() else r.stderr[-300:]
    r = subprocess.run(["/venv/bin/python", os.path.join(dst, "demo.py"), wt], capture_output=True, text=True, timeout=600)
    ran["demo_with"] = r.returncode
    ran["demo_output"] = (r.stdout + r.stderr)[-600:]
    subprocess.run(["git", "-C", wt, "apply", "-R", os.path.join(dst, "patch.diff")], capture_output=True, text=True)
    r = subprocess.run(["/venv/bin/python", os.path.join(dst, "demo.py"), wt], capture_output=True, text=True, timeout=600)
    ran["demo_without"] = r.returncode
    subprocess.run(["git", "-C", wt, "apply", os.path.join(dst, "patch.diff")], capture_output=True, text=True)
    env = dict(os.environ, MOCLO_REPO=wt)
    ran["checks"] = {}
    for c in checks:
        t = time.time()
        r = subprocess.run([os.path.join(VERIF, "check"), c, "--no-evidence"], capture_output=True, text=True, env=env, timeout=3600)
        lines = [l for l in r.stdout.splitlines() if l.startswith(("VIOLATION", "INCONCLUSIVE", "HARNESS-ERROR", "[" + c + "] obl"))]
        lines.sort(key=lambda l: not l.startswith("VIOLATION"))
        ran["checks"][c] = dict(rc=r.returncode, wall=round(time.time() - t), lines=lines[:6])
        # keep the first replay file as an illustration
        rp = os.path.join(VERIF, "replays", c, "0.json")
        if r.returncode == 1 and os.path.exists(rp):
            shutil.copy(rp, os.path.join(dst, "caught_by_%s.json" % c))
finally:
    subprocess.run(["git", "-C", "/repo", "worktree", "remove", "--force", wt], capture_output=True)
    for c in checks:  # only this run's sub-directories: several evaluations may run side by side
        shutil.rmtree(os.path.join(VERIF, "replays", c), ignore_errors=True)
        subprocess.run(["git", "-C", VERIF, "checkout", "--", "replays/" + c], capture_output=True)
meta = {}
mp = os.path.join(dst, "meta.json")
if os.path.exists(mp):
    try:
        meta = json.load(open(mp))
    except Exception:
        meta = {"raw": open(mp).read()}
old = meta.get("confirmation") or _prev
if isinstance(old, dict) and isinstance(old.get("checks"), dict) and "checks" in ran:
    merged = dict(old["checks"])
    merged.update(ran["checks"])
    ran["checks"] = merged
meta["confirmation"] = ran
json.dump(meta, open(mp, "w"), indent=1)
print(json.dumps(ran, indent=1))
