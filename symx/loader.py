# Loads /repo's current source into fresh module objects whose builtins are the symbolic-aware
# ones and whose library imports resolve to the models ("sym stack"), and, separately, imports
# the same source the ordinary way against the real Biopython ("real stack").  Nothing is cached
# between processes: the working tree is re-read on every run.
import builtins
import os
import sys
import types

REPO = os.environ.get("MOCLO_REPO", "/repo")

FILES = {
    "moclo": "moclo/moclo/__init__.py",
    "moclo._utils": "moclo/moclo/_utils.py",
    "moclo._impl": "moclo/moclo/_impl.py",
    "moclo.errors": "moclo/moclo/errors.py",
    "moclo.record": "moclo/moclo/record.py",
    "moclo.regex": "moclo/moclo/regex.py",
    "moclo.core": "moclo/moclo/core/__init__.py",
    "moclo.core._structured": "moclo/moclo/core/_structured.py",
    "moclo.core._utils": "moclo/moclo/core/_utils.py",
    "moclo.core.modules": "moclo/moclo/core/modules.py",
    "moclo.core.vectors": "moclo/moclo/core/vectors.py",
    "moclo.core._assembly": "moclo/moclo/core/_assembly.py",
    "moclo.core.parts": "moclo/moclo/core/parts.py",
    "moclo.kits": "moclo/moclo/kits/__init__.py",
    "moclo.kits.ytk": "moclo-ytk/moclo/kits/ytk.py",
    "moclo.kits.cidar": "moclo-cidar/moclo/kits/cidar.py",
    "moclo.kits.ecoflex": "moclo-ecoflex/moclo/kits/ecoflex.py",
    "moclo.kits.moclo": "moclo-moclo/moclo/kits/moclo.py",
    "moclo.kits.plant": "moclo-plant/moclo/kits/plant.py",
    "moclo.registry": "moclo/moclo/registry/__init__.py",
    "moclo.registry._utils": "moclo/moclo/registry/_utils.py",
    "moclo.registry.base": "moclo/moclo/registry/base.py",
    "moclo.registry.ytk": "moclo-ytk/moclo/registry/ytk.py",
    "moclo.registry.cidar": "moclo-cidar/moclo/registry/cidar.py",
    "moclo.registry.ecoflex": "moclo-ecoflex/moclo/registry/ecoflex.py",
    "moclo.registry.plant": "moclo-plant/moclo/registry/plant.py",
}
PKGS = {"moclo", "moclo.core", "moclo.kits", "moclo.registry"}
KITS = ["ytk", "cidar", "ecoflex", "moclo", "plant"]


class Stack(object):
    """uniform access to one stack (sym or real): stack.mod('moclo.record'), stack.Seq, ..."""

    def __init__(self, kind, mods, lib):
        self.kind = kind
        self.mods = mods
        self.__dict__.update(lib)

    def mod(self, name):
        return self.mods[name] if not callable(self.mods) else self.mods(name)

    @property
    def record(self):
        return self.mod("moclo.record")

    @property
    def regex(self):
        return self.mod("moclo.regex")

    @property
    def errors(self):
        return self.mod("moclo.errors")

    @property
    def modules(self):
        return self.mod("moclo.core.modules")

    @property
    def vectors(self):
        return self.mod("moclo.core.vectors")

    @property
    def parts(self):
        return self.mod("moclo.core.parts")

    @property
    def assembly(self):
        return self.mod("moclo.core._assembly")

    @property
    def structured(self):
        return self.mod("moclo.core._structured")

    def kit(self, name):
        return self.mod("moclo.kits." + name)


def repo_files():
    return {n: os.path.join(REPO, p) for n, p in FILES.items()}


_SYM = None


def sym_stack(extra_models=None, fresh=False):
    """load the repository under the models; one instance per process unless fresh=True"""
    global _SYM
    if _SYM is not None and not fresh and not extra_models:
        return _SYM
    from .models import bio, re_model, restriction
    from . import sbuiltins
    import Bio

    mods = {}
    mbio = types.ModuleType("Bio")
    mseq = types.ModuleType("Bio.Seq")
    mrec = types.ModuleType("Bio.SeqRecord")
    mfeat = types.ModuleType("Bio.SeqFeature")
    mseq.Seq = bio.Seq
    mseq.MutableSeq = bio.MutableSeq
    mrec.SeqRecord = bio.SeqRecord
    for k in ("SeqFeature", "FeatureLocation", "SimpleLocation", "CompoundLocation",
              "ExactPosition", "BeforePosition", "AfterPosition", "Reference", "Position", "Location"):
        setattr(mfeat, k, getattr(bio, k))
    mrestr = restriction.RestrictionModule("Bio.Restriction")
    mbio.Seq = mseq
    mbio.SeqRecord = mrec
    mbio.SeqFeature = mfeat
    mbio.Restriction = mrestr
    mbio.BiopythonWarning = Bio.BiopythonWarning
    mbio.__version__ = Bio.__version__
    models = {"Bio": mbio, "Bio.Seq": mseq, "Bio.SeqRecord": mrec, "Bio.SeqFeature": mfeat,
              "Bio.Restriction": mrestr, "re": re_model.re_module}

    class _PkgRes(types.ModuleType):
        @staticmethod
        def resource_string(modname, fname):
            short = modname[4:] if modname.startswith("sym_") else modname
            d = os.path.dirname(os.path.join(REPO, FILES[short]))
            with open(os.path.join(d, fname), "rb") as fh:
                return fh.read()

        @staticmethod
        def resource_stream(modname, fname):
            raise NotImplementedError("resource_stream is stubbed per harness")

    models["pkg_resources"] = _PkgRes("pkg_resources")
    if extra_models:
        models.update(extra_models)

    def s_import(name, globals=None, locals=None, fromlist=(), level=0):
        if level:
            pkg = globals["__package__"]
            parts = pkg.split(".")
            base = ".".join(parts[: len(parts) - (level - 1)])
            full = base + ("." + name if name else "")
        else:
            full = name

        def get(n):
            if n in models:
                return models[n]
            if n in FILES:
                return load(n)
            return None

        m = get(full)
        if m is None:
            return builtins.__import__(name, globals, locals, fromlist, level)
        if fromlist:
            for f in fromlist:
                if not hasattr(m, f):
                    sub = get(full + "." + f)
                    if sub is not None:
                        setattr(m, f, sub)
            return m
        # `import a.b.c` binds a: make sure the chain of attributes exists
        names = full.split(".")
        for i in range(1, len(names)):
            parent = get(".".join(names[:i]))
            child = get(".".join(names[: i + 1]))
            if parent is not None and child is not None and not hasattr(parent, names[i]):
                setattr(parent, names[i], child)
        return get(names[0]) or builtins.__import__(names[0])

    bi = sbuiltins.make_builtins(s_import)

    def load(name):
        if name in mods:
            return mods[name]
        m = types.ModuleType("sym_" + name)
        mods[name] = m
        path = os.path.join(REPO, FILES[name])
        m.__file__ = path
        m.__package__ = name if name in PKGS else name.rsplit(".", 1)[0]
        m.__dict__["__builtins__"] = bi
        if name in PKGS:
            m.__path__ = [os.path.dirname(path)]
        with open(path) as fh:
            code = compile(fh.read(), path, "exec")
        exec(code, m.__dict__)
        return m

    load_errors = {}
    for n in FILES:
        if n.startswith("moclo.registry"):
            continue  # registries are loaded on demand with I/O stubs (C20)
        try:
            load(n)
        except Exception as e:  # a kit module that fails to import is recorded, not fatal
            load_errors[n] = e
            mods.pop(n, None)
    lib = dict(Seq=bio.Seq, SeqRecord=bio.SeqRecord, SeqFeature=bio.SeqFeature,
               FeatureLocation=bio.SimpleLocation, SimpleLocation=bio.SimpleLocation,
               CompoundLocation=bio.CompoundLocation, Reference=bio.Reference,
               BeforePosition=bio.BeforePosition, AfterPosition=bio.AfterPosition,
               enzyme=lambda name: getattr(mrestr, name), load=load, models=models,
               load_errors=load_errors, builtins=bi)
    st = Stack("sym", mods, lib)
    if not extra_models:
        _SYM = st
    return st


_REAL = None


def real_stack():
    """import the repository normally (real Biopython), the way tests/__init__.py does"""
    global _REAL
    if _REAL is not None:
        return _REAL
    import warnings

    warnings.filterwarnings("ignore")
    sys.path.insert(0, os.path.join(REPO, "moclo"))
    import importlib
    import moclo.kits
    import moclo.registry

    for ext in KITS:
        d = os.path.join(REPO, "moclo-%s" % ext)
        moclo.kits.__path__.append(os.path.join(d, "moclo", "kits"))
        moclo.registry.__path__.append(os.path.join(d, "moclo", "registry"))
    import Bio.Seq
    import Bio.SeqRecord
    import Bio.SeqFeature
    import Bio.Restriction

    load_errors = {}

    def mod(name):
        return importlib.import_module(name)

    for n in FILES:
        if n.startswith("moclo.registry"):
            continue
        try:
            mod(n)
        except Exception as e:
            load_errors[n] = e
    lib = dict(Seq=Bio.Seq.Seq, SeqRecord=Bio.SeqRecord.SeqRecord,
               SeqFeature=Bio.SeqFeature.SeqFeature, FeatureLocation=Bio.SeqFeature.SimpleLocation,
               SimpleLocation=Bio.SeqFeature.SimpleLocation,
               CompoundLocation=Bio.SeqFeature.CompoundLocation,
               Reference=Bio.SeqFeature.Reference,
               BeforePosition=Bio.SeqFeature.BeforePosition, AfterPosition=Bio.SeqFeature.AfterPosition,
               enzyme=lambda name: getattr(Bio.Restriction, name), load=mod, models={},
               load_errors=load_errors, builtins=vars(builtins))
    _REAL = Stack("real", mod, lib)
    return _REAL
