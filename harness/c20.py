# C20 - registries are coherent read-only mappings of uniquely identified plasmids.
# Code executed symbolically: CombinedRegistry.*, EmbeddedRegistry._data/__len__/__getitem__/__iter__/
# _load_name/_load_resistance, Item, find_resistance, FilesystemRegistry.__init__/__iter__/__len__/
# __getitem__ (moclo/registry/base.py, _utils.py) and the collections.abc.Mapping mix-ins, over
# stubbed I/O (an archive / a directory is a symbolic listing).
import contextlib

from .common import *
from .rblock import generic_class

ID = "C20"
LEVEL_TEXT = ("Bounded verification by symbolic execution of the real registry classes over stubbed I/O: an embedded archive is a "
              "symbolic list of members whose ids are symbolic strings and whose features carry symbolically chosen label sets, "
              "a directory is a symbolic listing (each entry present or not, file or sub-directory, extension among supported and "
              "unsupported ones), a combined registry is built from symbolically overlapping members.  On every path: iteration "
              "yields each key once, len equals the number of keys, every key looks up to an item with that id holding a "
              "CircularRecord with that id and a resistance from the table, absent keys raise KeyError, and the union is "
              "first-wins.  Bounded claim.")
LEVEL_NOTE = ("Bounds: archives of <=3 members, directories of <=3 entries, combinations of <=3 registries (overlapping and "
              "repeated). tar/gzip/GenBank parsing and the fs library's glob matching are stubbed (environment); the data invariant "
              "'member name = record id, ids distinct' is assumed symbolically and checked concretely on the bundled archives when "
              "they are present in the tree. The five kit registries' _load_entity tables are exercised by that concrete side "
              "condition only. Trusted: z3, CPython, symx models, the I/O stubs.")
LEVEL_NOTE_EXTRA = 'Also: members arriving through a growing inner combined registry that is added again after it grew.'
TECHNIQUE = "bounded symbolic execution of the real Python source (symx) with z3 over symbolic archive/directory listings (I/O stubbed); replay on the real stack"
EXPLANATION = "registry code runs on symbolic listings: dict operations keyed by symbolic ids become solver-decided equality tests"
ASSUMPTIONS = [
    "I/O is stubbed: pkg_resources.resource_stream, tarfile.open, io.TextIOWrapper, Bio.SeqIO.read, fs.open_fs/read_only return "
    "objects with exactly the documented behaviour used by the code (member iteration, getmembers, filterdir glob, isfile, open)",
    "embedded archives: member name = record id, ids pairwise distinct; every record has one feature with exactly one resistance label",
    "directories: distinct stems",
]
LABELS = ["KanR", "CamR", "CmR", "KnR", "AmpR", "SmR", "SpecR"]
TABLE = {"KanR": "Kanamycin", "CamR": "Chloramphenicol", "CmR": "Chloramphenicol", "KnR": "Kanamycin", "AmpR": "Ampicillin",
         "SmR": "Spectinomycin", "SpecR": "Spectinomycin"}
IDCODES = [code_of(c) for c in "abc"]


def bounds(tier):
    return dict(archive_members_max=3, directory_entries_max=3, combined_members_max=3)


class World(object):
    archives = {}
    directory = []
    records = {}


class _Entry(object):
    def __init__(self, name, record):
        self.name = name
        self.record = record

    def read(self, *a):
        return b""


class _Tar(object):
    def __init__(self, members):
        self.members = list(members)
        self.pos = 0

    def __enter__(self):
        return self

    def __exit__(self, *a):
        return False

    def next(self):
        if self.pos < len(self.members):
            self.pos += 1
            return self.members[self.pos - 1]
        return None

    def extractfile(self, entry):
        return entry

    def getmembers(self):
        return list(self.members)


class _Stream(object):
    def __init__(self, key):
        self.key = key

    def __enter__(self):
        return self

    def __exit__(self, *a):
        return False


class FakePkgResources(object):
    @staticmethod
    def resource_stream(module, fname):
        return _Stream((module, fname))


class FakeTarfile(object):
    @staticmethod
    def open(name=None, mode="r", fileobj=None, **kw):
        return _Tar(World.archives[fileobj.key])


class FakeIO(object):
    @staticmethod
    def TextIOWrapper(h, *a, **kw):
        return h


class _SeqIO(object):
    @staticmethod
    def read(handle, fmt):
        return handle.record


class FakeBio(object):
    SeqIO = _SeqIO


class _Info(object):
    def __init__(self, name, is_dir):
        self.name = name
        self.is_dir = is_dir


class _FS(object):
    def filterdir(self, path, files=None, dirs=None, exclude_dirs=None, exclude_files=None, **kw):
        import fnmatch

        for name, is_dir, rec in World.directory:
            if is_dir:
                if exclude_dirs and any(fnmatch.fnmatch(name, p) for p in exclude_dirs):
                    continue
                yield _Info(name, True)
            else:
                if files and not any(fnmatch.fnmatch(name, p) for p in files):
                    continue
                yield _Info(name, False)

    # the part of the fs.base.FS interface a registry may reasonably use, with the library's semantics
    def isfile(self, name):
        return any(n == name and not d for n, d, r in World.directory)

    def isdir(self, name):
        return any(n == name and d for n, d, r in World.directory)

    def exists(self, name):
        return any(n == name for n, d, r in World.directory)

    def listdir(self, path):
        return [n for n, d, r in World.directory]

    def scandir(self, path, **kw):
        return iter(_Info(n, d) for n, d, r in World.directory)

    def getinfo(self, name, **kw):
        import fs.errors

        for n, d, r in World.directory:
            if n == name:
                return _Info(n, d)
        raise fs.errors.ResourceNotFound(name)

    def open(self, name, *a, **kw):
        import fs.errors

        for n, d, r in World.directory:
            if n == name:
                if d:
                    raise fs.errors.FileExpected(name)
                return contextlib.nullcontext(_Entry(n, r))
        raise fs.errors.ResourceNotFound(name)

    openbin = open


class FakeFs(object):
    @staticmethod
    def open_fs(url, *a, **kw):
        return _FS()


def registry_base(st):
    """moclo.registry.base of this stack with its I/O names bound to the stubs"""
    key = "_c20_base"
    b = getattr(st, key, None)
    if b is None:
        b = st.load("moclo.registry.base")
        b.pkg_resources = FakePkgResources
        b.tarfile = FakeTarfile
        b.io = FakeIO
        b.Bio = FakeBio
        b.fs = FakeFs
        b.read_only = lambda x: x
        setattr(st, key, b)
    return b


def sym_id(ctx, name):
    return ctx.mk.seq(name, 1, IDCODES)


def make_record(ctx, st, rid, tag, symbolic=True):
    """a plain SeqRecord whose first feature carries a (symbolically chosen) label set with exactly one resistance"""
    if symbolic:
        k = ctx.mk.pick(tag + "_res", len(LABELS))
        extra = ctx.mk.pick(tag + "_extra", 3)
    else:
        k, extra = (sum(ord(c) for c in tag) % len(LABELS)), 1
    labels = [LABELS[k]] + (["ori"] if extra == 1 else ["GFP", "note"] if extra == 2 else [])
    if extra == 2:
        labels.reverse()
    f0 = st.SeqFeature(st.SimpleLocation(0, 2), type="misc", qualifiers={"label": ["promoter"]})
    f1 = st.SeqFeature(st.SimpleLocation(1, 3), type="CDS", qualifiers={"label": labels})
    rec = st.SeqRecord(st.Seq("ACGTAC"), id=rid, name="name-" + tag, description="desc " + tag, features=[f0, f1],
                       annotations={"topology": "circular"})
    return rec, TABLE[LABELS[k]]


def same(a, b):
    return seq_eq(a, b) if (isinstance(a, (str, SSeq)) and isinstance(b, (str, SSeq))) else a == b


def distinct(ids):
    return And([Not(same(ids[i], ids[j])) for i in range(len(ids)) for j in range(i + 1, len(ids))])


def check_mapping(ctx, st, reg, expected, label):
    """expected: list of (id, resistance); generic Mapping coherence"""
    keys = list(iter(reg))
    ctx.require(len(keys) == len(expected), label + ":iteration-yields-wrong-number-of-keys")
    ctx.require(distinct(keys), label + ":iteration-yields-a-key-twice")
    ctx.require(len(reg) == len(expected), label + ":len-differs-from-number-of-keys")
    for rid, res in expected:
        ctx.require(Or([same(k, rid) for k in keys]), label + ":expected-key-not-iterated")
        ctx.require(bool(rid in reg), label + ":key-not-contained")
        item = reg[rid]
        ctx.require(same(item.id, rid), label + ":item-id-differs-from-key")
        ctx.require(isinstance(item.entity.record, st.record.CircularRecord), label + ":record-not-circular")
        ctx.require(same(item.entity.record.id, rid), label + ":record-id-differs-from-key")
        ctx.require(item.record is item.entity.record, label + ":item.record")
        if res is not None:
            ctx.require(item.resistance == res, label + ":resistance")
        ctx.require(item.resistance in TABLE.values(), label + ":unknown-resistance")
    for k in keys:
        ctx.require(Or([same(k, rid) for rid, _ in expected]), label + ":unexpected-key-iterated")


class _Entity(object):
    def __init__(self, record):
        self.record = record


def embedded_class(st, base, key):
    class TestRegistry(base.EmbeddedRegistry):
        _module = "stub.module"
        _file = key

        def _load_entity(self, record):
            return _Entity(record)

    return TestRegistry


def ob_embedded(ctx):
    st = ctx.stack
    base = registry_base(st)
    k = ctx.P["members"]
    ids = [sym_id(ctx, "id%d" % i) for i in range(k)]
    ctx.assume(distinct(ids))
    members, expected = [], []
    for i in range(k):
        rec, res = make_record(ctx, st, ids[i], "m%d" % i, symbolic=(i == 0))
        members.append(_Entry(ids[i], rec))
        expected.append((ids[i], res))
    World.archives = {("stub.module", "arch.tar.gz"): members}
    reg = embedded_class(st, base, "arch.tar.gz")()
    check_mapping(ctx, st, reg, expected, "embedded")
    absent = sym_id(ctx, "absent")
    if And([Not(same(absent, i)) for i in ids]):
        try:
            reg[absent]
            ok = False
        except KeyError:
            ok = True
        ctx.require(ok, "absent-key-did-not-raise-KeyError")
        ctx.require(not (absent in reg), "absent-key-contained")
        ctx.witness("absent-key")
    for i in range(k):
        ctx.require(reg[ids[i]].name == "name-m%d" % i, "item-name")
    return True


def ob_combined(ctx):
    st = ctx.stack
    base = registry_base(st)
    P = ctx.P
    World.archives = {}
    regs, contents = [], []
    for a in range(P["archives"]):
        k = P["sizes"][a]
        ids = [sym_id(ctx, "a%d_id%d" % (a, i)) for i in range(k)]
        ctx.assume(distinct(ids))
        members, exp = [], []
        for i in range(k):
            rec, res = make_record(ctx, st, ids[i], "a%dm%d" % (a, i), symbolic=False)
            members.append(_Entry(ids[i], rec))
            exp.append((ids[i], res, "name-a%dm%d" % (a, i)))
        World.archives[("stub.module", "arch%d" % a)] = members
        regs.append(embedded_class(st, base, "arch%d" % a)())
        contents.append(exp)
    comb = base.CombinedRegistry()
    order = P["order"]
    if P.get("nested"):
        # the members arrive through an inner combined registry that keeps growing: it is added, extended, added again
        inner = base.CombinedRegistry()
        for a in order:
            inner << regs[a]
            r = comb << inner
            ctx.require(r is comb, "lshift-does-not-return-the-registry")
    else:
        for a in order:
            r = comb << regs[a]
            ctx.require(r is comb, "lshift-does-not-return-the-registry")
    # expected union, first added wins
    union = []
    for a in order:
        for rid, res, nm in contents[a]:
            if not Or([same(rid, u[0]) for u in union]):
                union.append((rid, res, nm))
            else:
                ctx.witness("overlap")
    check_mapping(ctx, st, comb, [(u[0], u[1]) for u in union], "combined")
    for rid, res, nm in union:
        ctx.require(comb[rid].name == nm, "first-added-does-not-win")
    absent = sym_id(ctx, "absent")
    if And([Not(same(absent, u[0])) for u in union]):
        try:
            comb[absent]
            ok = False
        except KeyError:
            ok = True
        ctx.require(ok, "absent-key-did-not-raise-KeyError")
    # registries are read-only mappings: taking part in a combination does not change a member ...
    for a in range(P["archives"]):
        check_mapping(ctx, st, regs[a], [(c[0], c[1]) for c in contents[a]], "member%d-after-combination" % a)
        for rid, res, nm in union:
            if not Or([same(rid, c[0]) for c in contents[a]]):
                ctx.require(not (rid in regs[a]), "member%d-gained-a-key" % a)
    # ... and a later combination of the same instances is again exactly the union of what it was given
    comb2 = st_new_combined(base)
    comb2 << regs[order[0]]
    check_mapping(ctx, st, comb2, [(c[0], c[1]) for c in contents[order[0]]], "second-combination")
    check_mapping(ctx, st, comb, [(u[0], u[1]) for u in union], "first-combination-afterwards")
    return True


def st_new_combined(base):
    return base.CombinedRegistry()


def part_family(st):
    key = "_c20_family"
    B = getattr(st, key, None)
    if B is None:
        B = type(str("DirPart"), (st.parts.AbstractPart, st.modules.Entry), {"cutter": st.enzyme("BsaI")})
        B._keep = [type(str("DirPartA"), (B,), {"signature": ("ATGC", "ATTC")}),
                   type(str("DirPartB"), (B,), {"signature": ("GGAG", "CGCT")})]
        setattr(st, key, B)
    return B


PART_A = "GGTCTCAATGCTTATTCAGAGACCTTTT"
PART_B = "GGTCTCAGGAGTTCGCTAGAGACCTTTT"
EXTS = ["gb", "gbk", "fa", "txt", "gbx"]


def ob_directory(ctx):
    st = ctx.stack
    base = registry_base(st)
    B = part_family(st)
    stems = ["alpha", "beta", "gamma", "delta"][: ctx.P["entries"]]
    listing, expected, others = [], [], []
    for i, stem in enumerate(stems):
        if not ctx.mk.bool("present%d" % i):
            others.append(stem)
            continue
        is_dir = ctx.mk.bool("isdir%d" % i)
        exts = EXTS if i == 0 else ["gb", "txt", "gbk"]
        ext = exts[ctx.mk.pick("ext%d" % i, len(exts))]
        k = ctx.mk.pick("res%d" % i, len(LABELS)) if i == 0 else (3 * i) % len(LABELS)
        seq = PART_A if i % 2 == 0 else PART_B
        rec = st.SeqRecord(st.Seq(seq), id="internal-%d" % i, name="nm", description="desc %d" % i,
                           features=[st.SeqFeature(st.SimpleLocation(0, 3), type="CDS", qualifiers={"label": [LABELS[k], "x"]})],
                           annotations={"topology": "circular"})
        listing.append(("%s.%s" % (stem, ext), is_dir, rec))
        if not is_dir and ext in ("gb", "gbk"):
            expected.append((stem, TABLE[LABELS[k]]))
            ctx.witness("supported-file")
        else:
            others.append(stem)
            ctx.witness("ignored-directory" if is_dir else "ignored-extension")
    World.directory = listing
    reg = base.FilesystemRegistry("mem://", B)
    check_mapping(ctx, st, reg, expected, "directory")
    for stem, _ in expected:
        ctx.require(reg[stem].entity.is_valid() is True, "entity-not-valid")
    for stem in others + ["zz"]:
        try:
            reg[stem]
            ok = False
        except KeyError:
            ok = True
        ctx.require(ok, "absent-or-ignored-key-did-not-raise-KeyError:" + stem)
    for bad in ("not a type", st.SeqRecord):
        try:
            base.FilesystemRegistry("mem://", bad)
            ok = False
        except TypeError:
            ok = True
        ctx.require(ok, "bad-base-accepted")
    return True


def ob_bundled(ctx):
    """concrete side condition on the archives bundled in the tree (real stack only): member name = record id,
    ids distinct, every item coherent"""
    st = ctx.stack
    if st.kind != "real":
        ctx.checked()
        return True
    import importlib
    import os
    from symx import loader

    total = 0
    for mod, clsname, fname, d in (("moclo.registry.ytk", "YTKRegistry", "ytk.tar.gz", "moclo-ytk"),
                                   ("moclo.registry.ytk", "PTKRegistry", "ptk.tar.gz", "moclo-ytk"),
                                   ("moclo.registry.cidar", "CIDARRegistry", "cidar.tar.gz", "moclo-cidar"),
                                   ("moclo.registry.ecoflex", "EcoFlexRegistry", "ecoflex.tar.gz", "moclo-ecoflex"),
                                   ("moclo.registry.plant", "PlantRegistry", "plant.tar.gz", "moclo-plant")):
        if not os.path.exists(os.path.join(loader.REPO, d, "moclo", "registry", fname)):
            continue
        reg = getattr(importlib.import_module(mod), clsname)()
        keys = list(reg)
        ctx.require(len(keys) == len(set(keys)) == len(reg), "bundled:%s:keys" % clsname)
        for k in keys:
            it = reg[k]
            ctx.require(it.id == k and it.entity.record.id == k, "bundled:%s:%s:id" % (clsname, k))
            ctx.require(it.resistance in TABLE.values(), "bundled:%s:%s:resistance" % (clsname, k))
            total += 1
        try:
            reg["no such plasmid"]
            ok = False
        except KeyError:
            ok = True
        ctx.require(ok, "bundled:%s:absent" % clsname)
    return True


def obligations(tier, seed):
    obs = []
    for k in (1, 2, 3):
        obs.append(Ob("embedded archive with %d members" % k, ob_embedded, dict(members=k), samples=6, cost=30 ** k))
    combos = [dict(archives=2, sizes=[1, 1], order=[0, 1]), dict(archives=2, sizes=[2, 1], order=[0, 1]),
              dict(archives=2, sizes=[1, 2], order=[1, 0]), dict(archives=2, sizes=[1, 1], order=[0, 1, 0])]
    if tier != "quick":
        combos += [dict(archives=3, sizes=[1, 1, 1], order=[0, 1, 2]), dict(archives=2, sizes=[2, 2], order=[0, 1]),
                   dict(archives=3, sizes=[1, 2, 1], order=[2, 0, 1, 2])]
    for c in combos:
        obs.append(Ob("combined registries sizes=%s order=%s" % (c["sizes"], c["order"]), ob_combined, c, samples=6,
                      cost=40 ** sum(c["sizes"])))
    for c in combos[:tier_pick(tier, 1, 3)]:
        obs.append(Ob("combined registries sizes=%s order=%s through a growing inner combination" % (c["sizes"], c["order"]),
                      ob_combined, dict(c, nested=True), samples=6, cost=40 ** sum(c["sizes"]), group="history"))
    for e in [1, 2, 3]:
        obs.append(Ob("directory with %d entries" % e, ob_directory, dict(entries=e), samples=8, cost=70 ** e))
    obs.append(Ob("bundled archives (concrete side condition)", ob_bundled, {}, samples=1, cost=5))
    return obs
