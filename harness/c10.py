# C10 - literature citations survive assembly with consistent numbering.
# Code executed symbolically: AssemblyManager.assemble/_deref_citations/_ref_citations/_generate_assembly/
# _annotate_assembly, AbstractModule/AbstractVector.target_sequence (real rotate-and-slice on pre-set
# spans), CircularRecord.__lshift__/__rshift__/__getitem__, add_as_source.
import re

from .common import *
from .annot import *

ID = "C10"
LEVEL_TEXT = ("Bounded verification by symbolic execution of the real assembly code on annotated inputs: reference lists of 1-2 "
              "entries per record (shared or distinct between records, symbolically), features with 0-2 citation qualifiers "
              "whose indices are symbolic, and symbolic feature coordinates that put each cited feature inside or outside the "
              "retained fragment.  On every path z3/the executor shows: no exception; each product citation has the GenBank "
              "form [n] and points to a reference equal to the one its source feature cited; the product's reference list has "
              "no duplicates; the inputs' qualifiers and reference lists are unchanged; a second call gives the same product; "
              "and sequence/features/annotations equal those obtained with the citations stripped.  Bounded claim.")
LEVEL_NOTE = ("Bounds: 1-2 modules + vector, 12-nt records with fixed fragment spans, <=2 references per record, <=2 cited features "
              "per record, <=2 citations per feature; citation indices are valid (1..len(references)). Malformed citation strings "
              "are outside the domain. Trusted: z3, CPython, symx models of Bio.SeqRecord/SeqFeature.")
LEVEL_NOTE_EXTRA = "per-record 'Direct Submission' references (same title, other authors) and reference lists of 12 (quick) / 21 / 101 entries with symbolic two-digit indices. Also: all records under one identifier; references carrying the span of their source record (5/12/300 bases)."
TECHNIQUE = "bounded symbolic execution of the real Python source (symx) with z3 over symbolic citation indices, reference sharing and feature placement; replay on the real stack"
EXPLANATION = ("the citation dereference / re-reference code runs on records whose citation indices, reference identities and "
               "feature positions are symbolic; every path's product and inputs are compared with the specification")
ASSUMPTIONS = [
    "modules/vector expose given overhangs; fragments come from the real target_sequence() on pre-set match spans",
    "citation qualifiers are well-formed '[i]' with 1 <= i <= number of references of the record",
    "reference equality is Biopython's content equality",
]
CIT = re.compile(r"^\[(\d+)\]$")
N = 12
SP = module_spans(2, 4, 8, 10)  # module fragment = [2, 8); vector fragment = [8, 14) i.e. 8..11,0,1


def bounds(tier):
    return dict(modules_max=2, refs_per_record=2, cited_features_per_record=tier_pick(tier, 1, 2), citations_per_feature=2,
                symbolic_feature_position="one record at a time (the others carry their cited feature inside the fragment)")


def _element(ctx, st, idx, nref, nfeat, shared_titles, with_cit=True):
    """a record with nref references and nfeat features citing them"""
    mk = ctx.mk
    refs = []
    for k in range(nref):
        # title shared with another record or private to this one
        authors = None
        if mk.bool("e%d_ref%d_shared" % (idx, k)):
            title = shared_titles[k % len(shared_titles)]
        else:
            title = "private-%d-%d" % (idx, k)
        if ctx.P.get("direct_submission"):
            # every GenBank record carries its own 'Direct Submission' entry: same title, no PubMed id, other authors
            title = "Direct Submission"
            authors = "shared lab" if mk.bool("e%d_ref%d_same_authors" % (idx, k)) else "submitter %d-%d" % (idx, k)
        refs.append(make_ref(st, title, authors, span=ctx.P.get("refspan")))
    feats, spec = [], []
    for f in range(nfeat):
        if ctx.P.get("sympos", 0) == idx:
            s = mk.int("e%d_f%d_s" % (idx, f), 0, N - 1)
            ln = mk.int("e%d_f%d_l" % (idx, f), 0, 6)
        else:
            s, ln = (3 + f, 2) if idx < ctx.P["m"] else (9, 2)  # concretely inside the retained fragment
        ncit = ctx.P["ncit"][idx] if nref else 0
        cits = [1 + mk.pick("e%d_f%d_c%d" % (idx, f, q), nref) for q in range(ncit)]
        label = "e%df%d" % (idx, f)
        quals = {"label": [label]}
        if ncit and with_cit:
            quals["citation"] = ["[%d]" % c for c in cits]
        feats.append(st.SeqFeature(st.SimpleLocation(s, s + ln, strand=1), type="misc_feature", qualifiers=quals))
        spec.append(dict(label=label, cits=cits, titles=[(refs[c - 1].title, refs[c - 1].authors) for c in cits]))
    ann = {"topology": "circular"}
    if nref and with_cit:
        ann["references"] = refs
    rec = st.record.CircularRecord(st.Seq("ACGTTGCAAGCT"), id=("Exported" if ctx.P.get("ids") == "same" else "el%d" % idx), name="n%d" % idx, features=feats, annotations=ann)
    return rec, spec


def _build(ctx, st, P, with_cit=True):
    Mod, Vec = sliced_classes(st)
    m = P["m"]
    O = ["AA", "CC", "GG", "TC"]
    shared = ["shared-A", "shared-B"]
    recs, specs = [], []
    for i in range(m + 1):
        rec, spec = _element(ctx, st, i, P["nref"][i], P["nfeat"][i], shared, with_cit)
        recs.append(rec)
        specs.append(spec)
    mods = [Mod(recs[i], st.Seq(O[i]), st.Seq(O[i + 1]), SP) for i in range(m)]
    vec = Vec(recs[m], st.Seq(O[m]), st.Seq(O[0]), SP)
    return vec, mods, recs, specs


def strip_citations(snap):
    feats = [(t, i, loc, {k: v for k, v in q.items() if k != "citation"}) for (t, i, loc, q) in snap["features"]]
    ann = {k: v for k, v in snap["annotations"].items() if k != "references"}
    return dict(snap, features=feats, annotations=ann)


def ob_citations(ctx):
    st = ctx.stack
    P = ctx.P
    vec, mods, recs, specs = _build(ctx, st, P)
    before = [snapshot(r) for r in recs]
    out = run_assemble(st, vec, mods, id="prod", name="prod")  # any other exception escapes = violation
    ctx.observe("kind", out["kind"])
    ctx.require(out["kind"] == "product", "assembly-with-citations-failed:" + out["kind"])
    prod = out["product"]
    prefs = prod.annotations.get("references", [])
    titles = [(r.title, r.authors) for r in prefs]
    ctx.observe("titles", titles)
    ctx.require(len(set(titles)) == len(titles), "duplicate-reference-in-product")
    by_label = {}
    for spec in specs:
        for s in spec:
            by_label[s["label"]] = s
    seen_cited = set()
    for f in prod.features:
        if f.type == "source":
            continue
        lab = f.qualifiers["label"][0]
        s = by_label[lab]
        got = f.qualifiers.get("citation", [])
        ctx.require(len(got) == len(s["cits"]), "citation-count-changed")
        for g, want_title in zip(got, s["titles"]):
            mt = CIT.match(g) if isinstance(g, str) else None
            ctx.require(mt is not None, "citation-not-in-bracketed-index-form:%r" % (g,))
            idx = int(mt.group(1))
            ctx.require(1 <= idx <= len(prefs), "citation-index-out-of-range")
            ctx.require((prefs[idx - 1].title, prefs[idx - 1].authors) == want_title, "citation-points-to-another-reference")
            seen_cited.add(want_title)
        ctx.witness("cited-feature-retained", len(got) > 0)
    ctx.require(all(t in titles for t in seen_cited), "cited-reference-missing")
    after = [snapshot(r) for r in recs]
    for i, (a, b) in enumerate(zip(before, after)):
        ctx.require(snap_equal(a, b), "input-%d-changed" % i)
    # a second call on the same objects gives the same product
    out2 = run_assemble(st, vec, mods, id="prod", name="prod")
    ctx.require(out2["kind"] == "product" and snap_equal(snapshot(out2["product"]), snapshot(prod)), "second-call-differs")
    ctx.witness("shared-reference", len(titles) < sum(len(set(t for s in spec for t in s["titles"])) for spec in specs))
    return True


def ob_like_without(ctx):
    """records with citations assemble like records without them"""
    st = ctx.stack
    P = ctx.P
    vec, mods, recs, specs = _build(ctx, st, P)
    out = run_assemble(st, vec, mods, id="prod", name="prod")
    ctx.require(out["kind"] == "product", "assembly-with-citations-failed:" + out["kind"])
    mk_saved = ctx.mk
    ctx.mk = _Replay(ctx.mk)
    try:
        vec2, mods2, recs2, _ = _build(ctx, st, P, with_cit=False)
    finally:
        ctx.mk = mk_saved
    out2 = run_assemble(st, vec2, mods2, id="prod", name="prod")
    ctx.require(out2["kind"] == "product", "assembly-without-citations-failed")
    a, b = strip_citations(snapshot(out["product"])), strip_citations(snapshot(out2["product"]))
    ctx.require(snap_equal(a, b), "product-differs-from-citation-free-assembly")
    return True


from symx.run import ReplayMk as _Replay


def ob_many_refs(ctx):
    """long reference lists: the cited index ranges over 1..R (two-digit indices, indices containing 0)"""
    st = ctx.stack
    P = ctx.P
    R = P["R"]
    Mod, Vec = sliced_classes(st)
    refs = [make_ref(st, "ref-%02d" % k) for k in range(1, R + 1)]
    i1 = 1 + ctx.mk.pick("i1", R)
    i2 = 1 + ctx.mk.pick("i2", R)
    f = st.SeqFeature(st.SimpleLocation(3, 6, strand=1), type="CDS", qualifiers={"label": ["L"], "citation": ["[%d]" % i1, "[%d]" % i2]})
    m = st.record.CircularRecord(st.Seq("ACGTTGCAAGCT"), id="m", features=[f], annotations={"topology": "circular", "references": refs})
    vrefs = [make_ref(st, "ref-%02d" % k) for k in (2, 30, 10)]
    g = st.SeqFeature(st.SimpleLocation(9, 11, strand=1), type="CDS", qualifiers={"label": ["V"], "citation": ["[3]", "[1]"]})
    v = st.record.CircularRecord(st.Seq("ACGTTGCAAGCT"), id="v", features=[g], annotations={"topology": "circular", "references": vrefs})
    before = [snapshot(m), snapshot(v)]
    out = run_assemble(st, Vec(v, st.Seq("CC"), st.Seq("AA"), SP), [Mod(m, st.Seq("AA"), st.Seq("CC"), SP)], id="p", name="p")
    ctx.require(out["kind"] == "product", "assembly-with-citations-failed:" + out["kind"])
    prod = out["product"]
    prefs = prod.annotations.get("references", [])
    titles = [r.title for r in prefs]
    ctx.require(len(set(titles)) == len(titles), "duplicate-reference-in-product")
    want = {"L": ["ref-%02d" % i1, "ref-%02d" % i2], "V": ["ref-10", "ref-02"]}
    seen = 0
    for ft in prod.features:
        if ft.type == "source":
            continue
        got = ft.qualifiers.get("citation", [])
        w = want[ft.qualifiers["label"][0]]
        ctx.require(len(got) == len(w), "citation-count-changed")
        for c, t in zip(got, w):
            mt = CIT.match(c) if isinstance(c, str) else None
            ctx.require(mt is not None, "citation-not-in-bracketed-index-form:%r" % (c,))
            ctx.require(1 <= int(mt.group(1)) <= len(prefs) and prefs[int(mt.group(1)) - 1].title == t,
                        "citation-points-to-another-reference")
        seen += 1
    ctx.require(seen == 2, "cited-feature-lost")
    for a, b in zip(before, [snapshot(m), snapshot(v)]):
        ctx.require(snap_equal(a, b), "input-changed")
    return True


def obligations(tier, seed):
    obs = [Ob("long reference list R=%d (two-digit citation indices)" % R, ob_many_refs, dict(R=R), samples=6, cost=R * R)
           for R in tier_pick(tier, [12], [12, 21, 101])]
    shapes = [dict(m=1, nref=[1, 1], nfeat=[1, 1], ncit=[1, 1]), dict(m=1, nref=[2, 0], nfeat=[1, 0], ncit=[2, 0]),
              dict(m=1, nref=[2, 2], nfeat=[1, 1], ncit=[1, 2]), dict(m=1, nref=[2, 1], nfeat=[1, 1], ncit=[0, 1]),
              dict(m=2, nref=[1, 1, 1], nfeat=[1, 1, 1], ncit=[1, 1, 1])]
    if tier != "quick":
        shapes += [dict(m=1, nref=[2, 2], nfeat=[2, 1], ncit=[1, 1]), dict(m=2, nref=[2, 1, 2], nfeat=[1, 1, 1], ncit=[2, 1, 1]),
                   dict(m=2, nref=[2, 2, 0], nfeat=[2, 1, 0], ncit=[1, 2, 0]), dict(m=1, nref=[2, 2], nfeat=[1, 1], ncit=[2, 2])]
    obs.append(Ob("citations of per-record 'Direct Submission' references m=2", ob_citations,
                  dict(m=2, nref=[1, 1, 1], nfeat=[1, 1, 1], ncit=[1, 1, 1], sympos=0, direct_submission=True), samples=8,
                  cost=3000))
    obs.append(Ob("citations of per-record 'Direct Submission' references m=1 refs=[2,1]", ob_citations,
                  dict(m=1, nref=[2, 1], nfeat=[1, 1], ncit=[1, 1], sympos=1, direct_submission=True), samples=8, cost=6000))
    # record identifiers are labels: inputs that share one are still separate inputs with their own reference lists
    for sh in (shapes[0], shapes[4]):
        obs.append(Ob("citations m=%d refs=%s, all records share one id" % (sh["m"], sh["nref"]), ob_citations,
                      dict(sh, sympos=0, ids="same"), samples=8, cost=8 * 4 ** sum(sh["nref"]) * 2 ** sum(sh["ncit"]), group="ids"))
    # references that carry the span of their source record (as every parsed GenBank reference does), shorter and
    # longer than the product
    for span in tier_pick(tier, (300,), (5, 12, 300)):
        obs.append(Ob("citations m=2 refs=[1, 1, 1], references spanning %d bases of their source" % span, ob_citations,
                      dict(shapes[4], sympos=0, refspan=span), samples=8, cost=8 * 4 ** 3 * 2 ** 3, group="refspan",
                      expect_witness=("shared-reference",)))
    for sh in shapes:
        for sympos in range(sh["m"] + 1):
            if sh["nfeat"][sympos] == 0:
                continue
            p = dict(sh, sympos=sympos)
            nm = "m=%d refs=%s features=%s citations/feature=%s symbolic-position=el%d" % (
                sh["m"], sh["nref"], sh["nfeat"], sh["ncit"], sympos)
            c = 8 * 4 ** sum(sh["nref"]) * 2 ** sum(sh["ncit"])
            obs.append(Ob("citations " + nm, ob_citations, p, samples=8, cost=c))
            if sympos == 0 and (tier != "quick" or sh["m"] == 1):
                obs.append(Ob("like-without " + nm, ob_like_without, p, samples=6, cost=c))
    return obs
