# C04 - reported overhangs and fragments are true restriction fragments of the declared cutter.
# Code executed symbolically (block R): StructuredRecord.__init__/_get_regex/_match/is_valid,
# AbstractModule/AbstractVector._match (illegal-site screen), overhang_start/overhang_end/
# target_sequence/placeholder_sequence, every kit class's structure(), DNARegex.search,
# SeqMatch.group, CircularRecord.__lshift__/__rshift__/__getitem__, add_as_source.
from .common import *
from .rblock import *

ID = "C04"
LEVEL_TEXT = ("Bounded verification by symbolic execution of the real typing code on a fully symbolic circular record: for each "
              "kit class (structure literal taken from /repo's source at run time) and each generic class over an enzyme "
              "geometry, for every record of length F..F+s that the class accepts - at every rotation, with any extra sites - "
              "z3 shows that the reported overhangs are single-stranded ends of the declared cutter at two cut positions "
              "(computed from site/offset/overhang length by plain search on the circle), that the target is the stretch "
              "between them (vector: the complementary stretch), that no cut of the cutter lies strictly inside a flanked "
              "target, and that a vector's placeholder is the contiguous complement of its target.  Bounded claim.")
LEVEL_NOTE = ("Bounds: record length n in [F, F+1] quick / [F, F+4] thorough where F = number of fixed letters of the class's "
              "structure (25-48); quick decides one representative class per pattern shape plus 6 enzyme geometries, thorough "
              "all distinct kit patterns and all geometries of the installed Bio.Restriction. Letters over ACGT. The "
              "existential over cut positions is first tried at the positions where the class's own match lies and expanded "
              "to all positions only if that instance can fail. Generic classes over 3'-overhang cutters compile since fix 297887b; their "
              "totality is C17's obligation, the fragment semantics stated by C04 (leading overhang kept) is the 5' one. Trusted: z3, CPython, symx models (re, Bio.Restriction.catalyse, Bio.Seq*).")
LEVEL_NOTE_EXTRA = 'generic BsaI module at n = F+8 (a whole further site fits inside the target) and a generic module over LpnPI, a cutter with ambiguity codes in its site (known finding K1 excluded by assumption, see DESIGN 13.3; demonstrated in the thorough tier); each accepted/rejected instance is asked twice. Also: a record typed before and edited in place while the first entity is alive; plain SeqRecord inputs (whatever the accessors answer must be true of the circle).'
TECHNIQUE = "bounded symbolic execution of the real Python source (symx) with z3 on fully symbolic plasmids; restriction-geometry oracle; replay on the real stack"
EXPLANATION = ("symbolic execution of the kit/generic classes on a symbolic plasmid of every length in the bound: the regex "
               "search loop, the wrap-around group extraction, the illegal-site screen and the rotate-and-slice fragment "
               "extraction are decided by z3 against cut positions computed from the enzyme geometry")
ASSUMPTIONS = [
    "record letters over ACGT, length case-split in [F, F+s]; no assumption on content (any accepted record)",
    "5'-overhang cutters (all bundled kits); enzyme geometry read from Bio.Restriction at run time",
    "CPython re and Bio.Restriction.catalyse replaced by validated SMT models",
]


def bounds(tier):
    return dict(slack=tier_pick(tier, 1, 4), classes=tier_pick(tier, "one per pattern shape", "all distinct patterns"),
                geometries=tier_pick(tier, 6, "all"))


def ob_class(ctx):
    st = ctx.stack
    P = ctx.P
    n = P["n"]
    K = get_class(st, P)
    role = role_of(st, K)
    g = Geometry(K.cutter)
    pattern = K.structure()
    r = ctx.mk.seq("r", n, "ACGT")
    if any(ch not in "ACGT" for ch in g.site) and KNOWN_BOTH in known_keys():
        # known finding (see DESIGN.md 13.3): where the forward and the reverse reading of an ambiguous site match at the
        # SAME position, Bio.Restriction reports the forward cut only, so moclo's illegal-site screen cannot see the other.
        # That shape is excluded here (and demonstrated by the obligation that assumes it) so that any other violation of
        # the clause is still reported.
        from .rblock import _letters_at

        both = Or([And(_letters_at(r, n, p_, g.site), _letters_at(r, n, p_, g.rsite)) for p_ in range(n)])
        ctx.assume(both if P.get("only_known_shape") else Not(both))
    if P.get("history"):
        # the record object was typed before, while it held other letters; that first entity is still alive when the
        # record, edited in place, is typed again with a fresh entity
        r0 = concrete_instance(pattern, n)
        rec = st.record.CircularRecord(st.Seq(r0), id="rec")
        earlier = K(rec)
        if earlier.is_valid():
            earlier.overhang_start(), earlier.overhang_end()
            ctx.witness("earlier-accepted")
        ctx.earlier = earlier
        rec.seq = st.Seq(r)
    elif P.get("plain"):
        # a plain SeqRecord without a topology annotation is searched as a circle too; whatever the accessors answer
        # for it must be true of that circle (today fragment extraction refuses such a record with TypeError)
        rec = st.SeqRecord(st.Seq(r), id="rec")
    else:
        rec = st.record.CircularRecord(st.Seq(r), id="rec")
    ent = K(rec)
    valid = ent.is_valid()
    ctx.observe("valid", valid)
    if not valid:
        ctx.witness("rejected")
        ctx.require(ent.is_valid() is False, "second-is_valid-differs")
        for acc in ("overhang_start", "overhang_end", "target_sequence"):
            try:
                getattr(ent, acc)()
                ok = False
            except st.errors.InvalidSequence:
                ok = True
            ctx.require(ok, "invalid-record-gave-" + acc)
        return True
    ctx.witness("accepted")
    os_, oe_ = ent.overhang_start(), ent.overhang_end()
    if P.get("plain"):
        try:
            tgt = ent.target_sequence()
        except TypeError:
            ctx.witness("fragment-refused")
            g0 = Geometry(K.cutter)
            m0 = ent._match
            for ovh, grp in ((os_, 1 if role == "module" else 3), (oe_, 3 if role == "module" else 1)):
                c0 = ival(m0.span(grp)[0])
                ctx.require(And(is_cut(r, n, c0, g0), equals_circ(ovh, r, n, c0, g0.ovl)), "overhang-not-a-restriction-end")
            return True
    else:
        tgt = ent.target_sequence()
    ctx.observe("start", os_)
    ctx.observe("end", oe_)
    ctx.observe("target", tgt.seq)
    # candidate cut positions: where the class's own match puts groups 1 and 3
    try:
        m = ent._match
        w1, w3 = ival(m.span(1)[0]), ival(m.span(3)[0])
        ctx.witness("match-wraps-origin", ival(m.end()) > n)
        ctx.witness("origin-inside-group1", And(w1 < n, w1 + g.ovl > n))
        ctx.witness("origin-inside-group3", And(w3 < n, w3 + g.ovl > n))
        ctx.witness("origin-inside-group2", And(w1 + g.ovl <= n, w3 >= n))
    except AttributeError:
        w1 = w3 = None
    if role == "module":
        ca, cb = w1, w3  # start overhang at ca, end overhang at cb, target = [ca, cb)
        first, second = os_, oe_
    else:
        ca, cb = w3, w1  # vector: start overhang (group 3) at ca, end overhang (group 1) at cb, target = [ca, cb + n)
        first, second = os_, oe_
    tl = slen(tgt.seq)

    def clause(c1, c2):
        ln = mod(c2 - c1, n)
        # target = [c1, c2) read circularly; a whole-turn difference of 0 means length n only for vectors w/o placeholder
        return And(is_cut(r, n, c1, g), is_cut(r, n, c2, g),
                   equals_circ(first, r, n, c1, g.ovl), equals_circ(second, r, n, c2, g.ovl),
                   Eq(tl, ln), equals_circ(tgt.seq, r, n, c1, ln, n))

    def full():
        return Or([clause(c1, c2) for c1 in range(n) for c2 in range(n)])

    wit = clause(ca, cb) if ca is not None else False
    ctx.require_exists(wit, full, "overhangs-or-target-not-restriction-fragments")
    if role == "module" and sites_flank(pattern, g) and ca is not None:
        ln = mod(cb - ca, n)
        inside = [And(is_cut(r, n, c, g), 0 < mod(c - ca, n), mod(c - ca, n) < ln) for c in range(n)]
        ctx.require(Not(Or(inside)), "cut-strictly-inside-target")
    if role == "vector":
        ph = ent.placeholder_sequence()
        ctx.observe("placeholder", ph.seq)
        pl = slen(ph.seq)
        ctx.require(Eq(pl + tl, n), "placeholder+target-do-not-cover-plasmid-once")
        # contiguous stretch = the complement of the target: starts where the target ends
        wit2 = equals_circ(ph.seq, r, n, cb, pl, n) if cb is not None else False

        def full2():
            return Or([And(equals_circ(ph.seq, r, n, a, pl, n), equals_circ(tgt.seq, r, n, a + pl, tl, n))
                       for a in range(n)])

        ctx.require_exists(wit2, full2, "placeholder-not-the-contiguous-complement-of-target")
    # asking the same instance again gives the same answers (the match is cached per instance)
    ctx.require(ent.is_valid() is True, "second-is_valid-differs")
    ctx.require(seq_eq(ent.overhang_start(), os_) and True, "second-overhang_start-differs")
    ctx.require(seq_eq(ent.target_sequence().seq, tgt.seq), "second-target-differs")
    # the fragment carries a generated source feature naming the plasmid
    src = [f for f in tgt.features if f.type == "source"]
    ctx.require(len(src) == 1 and src[0].qualifiers.get("plasmid") == "rec", "source-feature")
    return True


KNOWN_BOTH = "C04:ambiguous-site:forward-and-reverse-reading-at-one-position"
_KNOWN = []


def known_keys():
    if not _KNOWN:
        from symx.run import load_known

        _KNOWN.append({k.get("key") for k in load_known(ID)})
    return _KNOWN[0]


def classify(result, cex):
    """key of the known finding a counterexample belongs to (None = new)"""
    if (result.get("params") or {}).get("only_known_shape"):
        return KNOWN_BOTH
    return None


def _double_reading_possible(enzyme):
    """some word matches the forward and the reverse recognition pattern at once"""
    import itertools
    import re
    from Bio import Restriction

    e = getattr(Restriction, enzyme)
    pats = re.findall(r"\(\?=\(\?P<\w+>(.*?)\)\)", e.compsite.pattern)
    if len(pats) != 2:
        return False
    return any(re.fullmatch(pats[0], "".join(w)) and re.fullmatch(pats[1], "".join(w))
               for w in itertools.product("ACGT", repeat=e.size))


def shape_key(pattern):
    """pattern with the letters inside groups 1 and 3 blanked (signature letters)"""
    out, gi, cur = [], 0, 0
    for ch in pattern:
        if ch == "(":
            gi += 1
            cur = gi
        elif ch == ")":
            cur = 0
        if cur in (1, 3) and ch not in "()":
            out.append("N")
        else:
            out.append(ch)
    return "".join(out)


QUICK_ENZYMES = ["BsaI", "BbsI", "SapI", "FokI", "BsmBI", "BtgZI"]
AMBIGUOUS_ENZYMES = ["AspBHI", "LpnPI"]  # 5' overhang, ambiguity codes in the recognition site


def class_params(tier, seed):
    """[(params, pattern, F)] - kit classes by distinct pattern (thorough) / by shape (quick) + generic classes"""
    from symx import loader

    st = loader.real_stack()
    out, seen = [], set()
    for kit, name, cls, role, pat in catalog(st):
        key = shape_key(pat) + role + str(cls.cutter) if tier == "quick" else pat + role + str(cls.cutter)
        if key in seen:
            continue
        seen.add(key)
        out.append((dict(src="kit", kit=kit, cls=name), pat, fixed_letters(pat)))
    geos = geometries()
    names = QUICK_ENZYMES + ["LpnPI"] if tier == "quick" else [v[0] for k, v in sorted(geos.items())] + AMBIGUOUS_ENZYMES
    for e in names:
        for role in ("module", "vector"):
            if tier == "quick" and e in AMBIGUOUS_ENZYMES and role == "vector":
                continue
            cls = generic_class(st, role, e)
            pat = cls.structure()
            key = pat + role
            if key in seen:
                continue
            seen.add(key)
            out.append((dict(src="generic", role=role, enzyme=e), pat, fixed_letters(pat)))
    return out


def obligations(tier, seed):
    obs = []
    # room for a whole further recognition site inside the target (the 'no cut strictly inside' clause)
    from symx import loader

    st = loader.real_stack()
    for e in (["BsaI"] if tier == "quick" else ["BsaI", "BbsI", "SapI"]):
        g = Geometry(st.enzyme(e))
        F = fixed_letters(generic_class(st, "module", e).structure())
        n = F + g.L + (g.lo - g.L) + 1
        obs.append(Ob("generic module over %s n=%d (F=%d, room for a third site in the target)" % (e, n, F), ob_class,
                      dict(src="generic", role="module", enzyme=e, n=n), samples=3, cost=n ** 3 * 4,
                      expect_witness=("accepted", "rejected"), group="third-site " + e))
    for e, role in tier_pick(tier, [("BsaI", "module")], [("BsaI", "module"), ("BsaI", "vector"), ("SapI", "module")]):
        F = fixed_letters(generic_class(st, role, e).structure())
        obs.append(Ob("generic %s over %s n=%d, record typed before and edited in place" % (role, e, F + 1), ob_class,
                      dict(src="generic", role=role, enzyme=e, n=F + 1, history=True), samples=3, cost=F ** 3 * 2,
                      expect_witness=("accepted", "rejected", "earlier-accepted"), group="history"))
    for e, role in tier_pick(tier, [("BsaI", "module")], [("BsaI", "module"), ("BsaI", "vector"), ("BbsI", "module")]):
        F = fixed_letters(generic_class(st, role, e).structure())
        obs.append(Ob("generic %s over %s n=%d on a plain SeqRecord (no topology annotation)" % (role, e, F + 1), ob_class,
                      dict(src="generic", role=role, enzyme=e, n=F + 1, plain=True), samples=3, cost=(F + 1) ** 3,
                      expect_witness=("accepted", "rejected"), group="plain"))
    slack = tier_pick(tier, [1], [0, 1, 2, 3, 4])
    for params, pat, F in class_params(tier, seed):
        if tier == "quick" and params.get("enzyme") in AMBIGUOUS_ENZYMES:
            # a cutter with ambiguity codes (B/D/H/V) in its site, decided at the minimal length in the quick tier
            label = "generic %s over %s" % (params["role"], params["enzyme"])
            obs.append(Ob("%s n=%d (F=%d)" % (label, F, F), ob_class, dict(params, n=F), samples=3, cost=F ** 3,
                          expect_witness=("accepted", "rejected"), group=label))
            continue
        label = "%s.%s" % (params["kit"], params["cls"]) if params["src"] == "kit" else \
            "generic %s over %s" % (params["role"], params["enzyme"])
        for s in slack:
            n = F + s
            p = dict(params, n=n)
            obs.append(Ob("%s n=%d (F=%d)" % (label, n, F), ob_class, p, samples=3, cost=n ** 3,
                          expect_witness=("accepted", "rejected"), group=label))
        if params["src"] == "generic" and params["enzyme"] in AMBIGUOUS_ENZYMES and params["role"] == "module" \
                and KNOWN_BOTH in known_keys() and _double_reading_possible(params["enzyme"]):
            obs.append(Ob("%s n=%d restricted to the known-finding shape" % (label, F), ob_class,
                          dict(params, n=F, only_known_shape=True), samples=0, cost=F ** 3, group="known " + label))
    return obs
