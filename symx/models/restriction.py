# Wrapper around the real Bio.Restriction enzyme classes.  Everything that is configuration
# (site, elucidate(), overhang kind, ...) is delegated to the real class.  catalyse()/search()
# on a symbolic sequence are computed from (site, fst5, fst3, ovhg) by an unrolled site search on
# both strands, following AbstractCut.search/_drop and Ov5/Ov3/Blunt.catalyse of Biopython 1.88;
# only the *number* of fragments is modelled (moclo uses `len(catalyse(seq)) > 3` only).
import types

from ..core import SSeq, SInt, Unsupported, And, Or, If, Sum, Eq, S, code_of, supper_code
from .bio import Seq


class FragmentTuple(object):
    """tuple of fragments of which only the count is known"""

    def __init__(self, count):
        self.count = count

    def __sym_len__(self):
        return self.count

    def __len__(self):
        return S().realize(self.count)

    def __iter__(self):
        raise Unsupported("fragments of a symbolic digest are not modelled (only their number)")

    __getitem__ = None


_CUT_TABS = {}
_CUT_RES = {}
_WATOM = {}


_SITE_CLASSES = {}


def _site_classes(enz):
    """letter classes of the forward and (if different) reverse recognition pattern, parsed from the enzyme's own
    compiled search pattern (enz.compsite), with the cut offsets of OneCut._modify / _rev_modify"""
    key = str(enz)
    r = _SITE_CLASSES.get(key)
    if r is None:
        import re as real_re
        from .re_model import flatten

        inner = real_re.findall(r"\(\?=\(\?P<\w+>(.*?)\)\)", enz.compsite.pattern)
        if not inner or len(inner) > 2:
            raise Unsupported("unexpected search pattern for %s: %s" % (enz, enz.compsite.pattern))
        r = []
        for k, pat in enumerate(inner):
            items, _ = flatten(pat)
            if any(it[0] != "set" for it in items) or len(items) != enz.size:
                raise Unsupported("unexpected site pattern for %s: %s" % (enz, pat))
            r.append(([it[1] for it in items], enz.fst5 if k == 0 else -enz.fst3))
        _SITE_CLASSES[key] = r
    return r


def _zand(a, b):
    import z3

    if a is True:
        return b
    if b is True:
        return a
    if a is False or b is False:
        return False
    return z3.And(a, b)


def _zor(a, b):
    import z3

    if a is False:
        return b
    if b is False:
        return a
    if a is True or b is True:
        return True
    return z3.Or(a, b)


def _znot(a):
    import z3

    if a is True:
        return False
    if a is False:
        return True
    return z3.Not(a)


def _classes_at(letters, j, classes):
    """raw z3 condition (or python bool): letters[j:j+len(classes)] lie in the given letter classes"""
    from .re_model import in_cls

    cond = True
    for q, cls in enumerate(classes):
        a = in_cls(letters[j + q], cls)
        if a is False:
            return False
        cond = _zand(cond, a)
    return cond


def _word_at(letters, j, word):
    """raw z3 condition (or python bool): word occupies letters[j:j+len(word)]"""
    import z3

    cs = []
    for q, ch in enumerate(word):
        l = letters[j + q]
        code = code_of(ch)
        if isinstance(l, int):
            if l != code:
                return False
            continue
        k = (l.e.get_id(), code)
        a = _WATOM.get(k)
        if a is None:
            a = (l.e == code, l.e)
            _WATOM[k] = a
        cs.append(a[0])
    if not cs:
        return True
    return z3.And(cs) if len(cs) > 1 else cs[0]


class EnzymeWrap(object):
    _cache = {}

    def __new__(cls, real):
        w = cls._cache.get(real)
        if w is None:
            w = object.__new__(cls)
            w.real = real
            cls._cache[real] = w
        return w

    def __getattr__(self, k):
        return getattr(self.real, k)

    def __repr__(self):
        return repr(self.real)

    def __str__(self):
        return str(self.real)

    def __eq__(self, other):
        if isinstance(other, EnzymeWrap):
            return self.real == other.real
        return self.real == other

    def __hash__(self):
        return hash(self.real)

    def _count_cuts(self, seq, linear):
        """number of cuts Bio's search()+_drop() keeps on a linear symbolic sequence, following
        NonPalindromic/Palindromic._search, OneCut._modify/_rev_modify and AbstractCut._drop:
        a site found at 1-based location s cuts the top strand at w = s + fst5 (forward site) or
        w = s - fst3 (reverse site); the cut is kept iff 1 < w <= length and 1 < w - ovhg <= length"""
        data = seq._d if isinstance(seq, Seq) else seq
        if isinstance(data, str):
            return None
        if not linear:
            raise Unsupported("circular symbolic digest")
        enz = self.real
        if not enz.cut_once():
            raise Unsupported("symbolic digest with a non single-cut enzyme (%s)" % enz)
        import z3
        from ..core import tz, mkint

        words = _site_classes(enz)  # [(list of letter classes, delta)] forward first, as in enz.compsite
        size = enz.size
        M = data.maxlen
        hint = data.hint
        letters = [supper_code(data.get(j), hint) for j in range(M)]
        lkey = tuple(("c", l) if isinstance(l, int) else ("z", l.e.get_id()) for l in letters)
        ck = (str(enz), lkey)
        tab = _CUT_TABS.get(ck)
        if tab is None:
            tab = []  # (condition on letters, minimal length needed) per potential site
            for j in range(M - size + 1):
                taken = False  # re.finditer reports one alternative per position: the forward site wins
                for classes, delta in words:
                    cond = _classes_at(letters, j, classes)
                    if cond is False:
                        continue
                    full = cond
                    if taken is not False:
                        full = _zand(cond, _znot(taken))
                    taken = cond if taken is False else _zor(taken, cond)
                    w = (j + 1) + delta
                    c = w - enz.ovhg
                    if not (1 < w and 1 < c):
                        continue
                    if full is False:
                        continue
                    tab.append((full, max(w, c, j + size)))
            _CUT_TABS[ck] = (tab, letters)
        else:
            tab = tab[0]
        length = data.n
        rk = (ck, length if isinstance(length, int) else ("z", length.e.get_id()))
        hit = _CUT_RES.get(rk)
        if hit is not None:
            return hit[0]
        res = self._sum_cuts(tab, length)
        _CUT_RES[rk] = (res, length)
        return res

    @staticmethod
    def _sum_cuts(tab, length):
        import z3
        from ..core import mkint

        terms = []
        conc = 0
        one, zero = z3.IntVal(1), z3.IntVal(0)
        for cond, need in tab:
            if isinstance(length, int):
                if need > length:
                    continue
                g = cond
            else:
                g = z3.And(cond, length.e >= need) if cond is not True else (length.e >= need)
            if g is True:
                conc += 1
            else:
                terms.append(z3.If(g, one, zero))
        if not terms:
            return conc
        return mkint(z3.Sum(terms) + conc)

    def catalyse(self, dna, linear=True):
        cnt = self._count_cuts(dna, linear)
        if cnt is None:
            import Bio.Seq

            d = dna._d if isinstance(dna, Seq) else dna
            return tuple(Seq(str(f)) for f in self.real.catalyse(Bio.Seq.Seq(d), linear))
        return FragmentTuple(cnt + 1)

    catalyze = catalyse

    def search(self, dna, linear=True):
        d = dna._d if isinstance(dna, Seq) else dna
        if isinstance(d, str):
            import Bio.Seq

            return self.real.search(Bio.Seq.Seq(d), linear)
        # only the number of reported cut positions is modelled (same count as the digest's cuts)
        return FragmentTuple(self._count_cuts(dna, linear))

    @property
    def compsite(self):
        return CompSiteWrap(self.real)


class CompSiteWrap(object):
    """the enzyme's compiled search pattern; on a symbolic text only the number of (case-sensitive, overlapping,
    one per position) hits of findall/finditer is modelled"""

    def __init__(self, real):
        self._enz = real
        self._rx = real.compsite

    def __getattr__(self, k):
        return getattr(self._rx, k)

    def _count(self, text):
        import z3
        from ..core import mkint

        data = text._d if isinstance(text, Seq) else text
        if isinstance(data, str):
            return None
        words = _site_classes(self._enz)
        size = self._enz.size
        M = data.maxlen
        letters = [data.get(j) for j in range(M)]
        terms, conc = [], 0
        one, zero = z3.IntVal(1), z3.IntVal(0)
        length = data.n
        for j in range(M - size + 1):
            hit = False
            for classes, _ in words:
                hit = _zor(hit, _classes_at(letters, j, classes))
            if hit is False:
                continue
            if not isinstance(length, int):
                hit = z3.And(hit, length.e >= j + size) if hit is not True else (length.e >= j + size)
            elif j + size > length:
                continue
            if hit is True:
                conc += 1
            else:
                terms.append(z3.If(hit, one, zero))
        return mkint(z3.Sum(terms) + conc) if terms else conc

    def findall(self, text, *a):
        c = None if a else self._count(text)
        if c is None:
            if a or isinstance(text, str):
                return self._rx.findall(text, *a)
            raise Unsupported("compsite.findall with bounds on a symbolic text")
        return FragmentTuple(c)

    def finditer(self, text, *a):
        c = None if a else self._count(text)
        if c is None:
            if a or isinstance(text, str):
                return self._rx.finditer(text, *a)
        raise Unsupported("compsite.finditer on a symbolic text")

    def search(self, text, *a):
        if isinstance(text, str):
            return self._rx.search(text, *a)
        raise Unsupported("compsite.search on a symbolic text")

    match = search


class RestrictionModule(types.ModuleType):
    def __getattr__(self, k):
        import Bio.Restriction

        v = getattr(Bio.Restriction, k)
        if isinstance(v, type) and isinstance(v, Bio.Restriction.Restriction.RestrictionType):
            return EnzymeWrap(v)
        return v
