# C02 - a plasmid has no origin: typing is rotation-invariant.
# Code executed symbolically: block R twice (canonical record and its rotation through the real
# CircularRecord.__rshift__), for kit classes and generic classes.
from .common import *
from .rblock import *
from .c04 import class_params, shape_key

ID = "C02"
LEVEL_TEXT = ("Bounded verification by symbolic execution of the real typing code on a symbolic plasmid r (exactly one occurrence "
              "of the class's structure, canonical position) and on r >> k computed by the real __rshift__: the rotation is "
              "case-split by residue (k = rho + q*n, q an unbounded integer, one path family per rho in 0..n-1, so the origin "
              "falls at every position of the site, the overhangs, the target and the backbone) and z3 shows that acceptance, "
              "both overhangs, the target and the placeholder are letter-for-letter the same.  Any two rotations of a circle "
              "are rotations of the canonical one and rotations compose (C13), so this covers every pair.  Bounded claim.")
LEVEL_NOTE = ("Bounds: n = F+1 quick (one class per pattern shape + 6 enzyme geometries), n in [F, F+3] thorough (all distinct "
              "patterns, all geometries); letters over ACGT; plus generic classes at n = F+8 (room for a third recognition site inside the target: the illegal-site screen must not depend on the origin either). The assembly clause rests on C03/C19 (the walk reads overhangs and "
              "fragments only) plus C01's end-to-end rotated runs; the 'every registry plasmid' clause (2-10 kb concrete "
              "records) is outside what a solver query can cover and is not claimed. Trusted: z3, CPython, symx models.")
LEVEL_NOTE_EXTRA = "Also: the kit-level entry point characterize() rotated like the constructors; generic classes over 3'-overhang cutters (BsrDI, BciVI, BseRI)."
TECHNIQUE = "bounded symbolic execution of the real Python source (symx) with z3; metamorphic relation r vs r>>k with residue case split; replay on the real stack"
EXPLANATION = ("two symbolic executions of the typing code on one path (r and r >> k); uniqueness of the structure occurrence is "
               "an explicit assumption built from a declarative match predicate; z3 decides equality of every reported value")
ASSUMPTIONS = [
    "exactly one occurrence (start, extent) of the class's structure on the circle, placed at index 0 in the canonical record",
    "record letters over ACGT, n case-split, k = rho + q*n with q unbounded",
    "CPython re and Bio.Restriction.catalyse replaced by validated SMT models",
]


def bounds(tier):
    return dict(slack=tier_pick(tier, [1], [0, 1, 2, 3]), residues="all n residues of k mod n", q="unbounded integer")


def unique_at_zero(ctx, pattern, r, n):
    from symx.models.re_model import SymPattern
    from .c16 import oracle_regex

    OP = SymPattern(oracle_regex(pattern))
    R = SSeq.lift(r)
    dd = R + R
    vecs = OP._vectors(0, n)
    at0 = [OP.valid(dd, 0, t, n) for t in vecs]
    ctx.assume(Eq(Count(at0), 1))
    others = []
    for i in range(1, n):
        data = dd[i:i + n]
        others += [OP.valid(data, 0, t, n) for t in vecs]
    ctx.assume(Not(Or(others)))


def ob_rot(ctx):
    st = ctx.stack
    P = ctx.P
    n = P["n"]
    K = get_class(st, P)
    role = role_of(st, K)
    pattern = K.structure()
    r = ctx.mk.seq("r", n, "ACGT")
    unique_at_zero(ctx, pattern, r, n)
    rho = P["lo"] + ctx.mk.pick("rho", P["hi"] - P["lo"])
    q = ctx.mk.int("q")
    k = rho + q * n
    rec = st.record.CircularRecord(st.Seq(r), id="rec")
    a = K(rec)
    b = K(rec >> k)
    va, vb = a.is_valid(), b.is_valid()
    ctx.observe("valid", [va, vb])
    ctx.require(va == vb, "acceptance-changes-with-rotation")
    ctx.witness("accepted" if va else "rejected")
    if not va:
        return True
    g = Geometry(K.cutter)
    F = P["F"]
    ctx.witness("origin-in-first-site-or-overhang", 0 < rho and rho <= g.L + g.ovl)
    ctx.require(seq_eq(a.overhang_start(), b.overhang_start()), "overhang_start-changes-with-rotation")
    ctx.require(seq_eq(a.overhang_end(), b.overhang_end()), "overhang_end-changes-with-rotation")
    ta, tb_ = a.target_sequence(), b.target_sequence()
    ctx.observe("target", [ta.seq, tb_.seq])
    ctx.require(seq_eq(ta.seq, tb_.seq), "target-changes-with-rotation")
    if role == "vector":
        ctx.require(seq_eq(a.placeholder_sequence().seq, b.placeholder_sequence().seq),
                    "placeholder-changes-with-rotation")
    return True


def ob_rot_characterize(ctx):
    """the kit-level typing entry point (AbstractPart.characterize, used by the registries) gives the same type,
    overhangs and target whatever the origin"""
    from .c05 import user_family

    st = ctx.stack
    P = ctx.P
    n = P["n"]
    if P["src"] == "kit":
        B = kit_class(st, P["kit"], P["cls"])
    else:
        B = user_family(st, P["role"], P["enzyme"])
    role = role_of(st, B)
    G = generic_class(st, role, str(getattr(B.cutter, "real", B.cutter)))
    r = ctx.mk.seq("r", n, "ACGT")
    unique_at_zero(ctx, G.structure(), r, n)
    rho = P["lo"] + ctx.mk.pick("rho", P["hi"] - P["lo"])
    q = ctx.mk.int("q")
    rec = st.record.CircularRecord(st.Seq(r), id="rec")

    def typed(x):
        try:
            return B.characterize(x)
        except RuntimeError:
            return None

    a, b = typed(rec), typed(rec >> (rho + q * n))
    ctx.observe("types", [type(a).__name__, type(b).__name__])
    ctx.require(type(a) is type(b), "characterize-changes-with-rotation")
    ctx.witness("typed" if a is not None else "untyped")
    if a is None:
        return True
    ctx.require(seq_eq(a.overhang_start(), b.overhang_start()), "overhang_start-changes-with-rotation")
    ctx.require(seq_eq(a.overhang_end(), b.overhang_end()), "overhang_end-changes-with-rotation")
    ctx.require(seq_eq(a.target_sequence().seq, b.target_sequence().seq), "target-changes-with-rotation")
    return True


def obligations(tier, seed):
    obs = []
    slack = tier_pick(tier, [1], [0, 1, 2, 3])
    chunks = tier_pick(tier, 4, 4)
    # room for a further recognition site inside the target: acceptance (the illegal-site screen) must not depend on
    # where the origin falls either
    from symx import loader

    st_ = loader.real_stack()
    for e, role in ([("BsaI", "module")] if tier == "quick" else [("BsaI", "module"), ("BsaI", "vector"), ("BbsI", "module")]):
        g = Geometry(st_.enzyme(e))
        F = fixed_letters(generic_class(st_, role, e).structure())
        n = F + g.L + (g.lo - g.L) + 1
        step = (n + 7) // 8
        for lo in range(0, n, step):
            hi = min(n, lo + step)
            obs.append(Ob("generic %s over %s n=%d (room for a third site) rho=%d..%d" % (role, e, n, lo, hi - 1), ob_rot,
                          dict(src="generic", role=role, enzyme=e, n=n, F=F, lo=lo, hi=hi), samples=3, cost=n ** 3 * 2,
                          group="third-site %s %s" % (role, e)))
    fams = [dict(src="user", role="module", enzyme="BsaI")]
    if tier != "quick":
        fams += [dict(src="user", role="vector", enzyme="BsaI"), dict(src="kit", kit="cidar", cls="CIDARPart"),
                 dict(src="kit", kit="ecoflex", cls="EcoFlexPart")]
    for fam in fams:
        try:
            enz = fam["enzyme"] if fam["src"] == "user" else str(kit_class(st_, fam["kit"], fam["cls"]).cutter)
            role = fam["role"] if fam["src"] == "user" else role_of(st_, kit_class(st_, fam["kit"], fam["cls"]))
        except AttributeError:
            continue
        n = fixed_letters(generic_class(st_, role, enz).structure()) + 1
        label = "characterize %s" % ("user family %s over %s" % (role, enz) if fam["src"] == "user" else "%s.%s" % (fam["kit"], fam["cls"]))
        step = (n + 3) // 4
        for lo in range(0, n, step):
            hi = min(n, lo + step)
            obs.append(Ob("%s n=%d rho=%d..%d" % (label, n, lo, hi - 1), ob_rot_characterize, dict(fam, n=n, lo=lo, hi=hi),
                          samples=3, cost=n ** 3 * 3, group=label, expect_witness=("typed", "untyped")))
    # user-defined classes over cutters that leave a 3' overhang (the structure has the other branch of every derivation)
    for e, role in tier_pick(tier, [("BsrDI", "vector")], [("BsrDI", "vector"), ("BsrDI", "module"), ("BciVI", "vector"), ("BseRI", "module")]):
        F = fixed_letters(generic_class(st_, role, e).structure())
        n = F + 1
        step = (n + chunks - 1) // chunks
        for lo in range(0, n, step):
            hi = min(n, lo + step)
            obs.append(Ob("generic %s over %s (3' overhang) n=%d rho=%d..%d" % (role, e, n, lo, hi - 1), ob_rot,
                          dict(src="generic", role=role, enzyme=e, n=n, F=F, lo=lo, hi=hi), samples=3, cost=n ** 3,
                          group="3' overhang %s %s" % (role, e)))
    for params, pat, F in class_params(tier, seed):
        label = "%s.%s" % (params["kit"], params["cls"]) if params["src"] == "kit" else \
            "generic %s over %s" % (params["role"], params["enzyme"])
        for s in slack:
            n = F + s
            step = (n + chunks - 1) // chunks
            for lo in range(0, n, step):
                hi = min(n, lo + step)
                p = dict(params, n=n, F=F, lo=lo, hi=hi)
                obs.append(Ob("%s n=%d rho=%d..%d" % (label, n, lo, hi - 1), ob_rot, p, samples=3,
                              cost=n ** 3, group=label))
    return obs
