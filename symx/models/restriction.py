# Wrapper around the real Bio.Restriction enzyme classes.  Everything that is configuration
# (site, elucidate(), overhang kind, ...) is delegated to the real class.  catalyse()/search()
# on a symbolic sequence are computed from (site, fst5, fst3, ovhg) by an unrolled site search on
# both strands, following AbstractCut.search/_drop and Ov5/Ov3/Blunt.catalyse of Biopython 1.88;
# only the *number* of fragments is modelled (moclo uses `len(catalyse(seq)) > 3` only).
import types

from ..core import SSeq, SInt, Unsupported, And, Or, If, Sum, Eq, S, code_of, supper_code
from .bio import Seq


class FragmentTuple(object):
    """tuple of fragments of which only the count is known"""

    def __init__(self, count):
        self.count = count

    def __sym_len__(self):
        return self.count

    def __len__(self):
        return S().realize(self.count)

    def __iter__(self):
        raise Unsupported("fragments of a symbolic digest are not modelled (only their number)")

    __getitem__ = None


class EnzymeWrap(object):
    _cache = {}

    def __new__(cls, real):
        w = cls._cache.get(real)
        if w is None:
            w = object.__new__(cls)
            w.real = real
            cls._cache[real] = w
        return w

    def __getattr__(self, k):
        return getattr(self.real, k)

    def __repr__(self):
        return repr(self.real)

    def __str__(self):
        return str(self.real)

    def __eq__(self, other):
        if isinstance(other, EnzymeWrap):
            return self.real == other.real
        return self.real == other

    def __hash__(self):
        return hash(self.real)

    def _cuts(self, data, linear):
        """-> list of (condition, watson_cut_position_1based) for every potential site, following
        NonPalindromic/Palindromic._search with OneCut._modify (ambiguous sites unsupported)"""
        enz = self.real
        site = enz.site
        if any(c not in "ACGT" for c in site):
            raise Unsupported("symbolic digest with an ambiguous recognition site (%s)" % enz)
        if not enz.cut_once():
            raise Unsupported("symbolic digest with a non single-cut enzyme (%s)" % enz)
        import Bio.Seq

        rsite = str(Bio.Seq.Seq(site).reverse_complement())
        size = len(site)
        n = data.n
        M = data.maxlen
        out = []

        # FormattedSeq upper-cases the data and prepends a space: python index j <-> position j+1
        hint = data.hint

        def up(j):
            return supper_code(data.get(j), hint)

        def site_at(word, j):
            # site occupying positions j..j+size-1 (python indices), wrapping when circular
            cs = []
            for q, ch in enumerate(word):
                p = j + q
                if linear:
                    cs.append(Eq(up(p), code_of(ch)) if p < M else False)
                    cs.append(p < n)
                else:
                    # data + data[1:size]: wrap of at most size-1 letters
                    if isinstance(n, int):
                        cs.append(Eq(up(p % n), code_of(ch)) if n > 0 else False)
                        if p >= n and not (q >= 1 and p - n < size - 1):
                            cs.append(False)
                    else:
                        raise Unsupported("circular symbolic digest needs a concrete length")
            return And(cs)

        for j in range(M):
            start = j + 1  # 1-based location of the match
            c_f = And(j < n, site_at(site, j))
            if c_f is not False:
                out.append((c_f, start + enz.fst5))
            if rsite != site:
                c_r = And(j < n, site_at(rsite, j))
                if c_r is not False:
                    out.append((c_r, start - enz.fst3))
        return out

    def _count_cuts(self, seq, linear):
        data = seq._d if isinstance(seq, Seq) else seq
        if isinstance(data, str):
            return None
        if not linear:
            raise Unsupported("circular symbolic digest")
        enz = self.real
        length = data.n
        cuts = self._cuts(data, linear)
        kept = []
        for cond, w in cuts:
            c = w - enz.ovhg
            kept.append(And(cond, 1 < w, w <= length, 1 < c, c <= length))
        return Sum([If(k, 1, 0) for k in kept])

    def catalyse(self, dna, linear=True):
        cnt = self._count_cuts(dna, linear)
        if cnt is None:
            import Bio.Seq

            d = dna._d if isinstance(dna, Seq) else dna
            return tuple(Seq(str(f)) for f in self.real.catalyse(Bio.Seq.Seq(d), linear))
        return FragmentTuple(cnt + 1)

    catalyze = catalyse

    def search(self, dna, linear=True):
        d = dna._d if isinstance(dna, Seq) else dna
        if isinstance(d, str):
            import Bio.Seq

            return self.real.search(Bio.Seq.Seq(d), linear)
        raise Unsupported("enzyme.search on a symbolic sequence (only catalyse is modelled)")


class RestrictionModule(types.ModuleType):
    def __getattr__(self, k):
        import Bio.Restriction

        v = getattr(Bio.Restriction, k)
        if isinstance(v, type) and isinstance(v, Bio.Restriction.Restriction.RestrictionType):
            return EnzymeWrap(v)
        return v
