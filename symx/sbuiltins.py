# Symbolic-aware replacements for the builtins the analysed source calls on values that may be
# proxies.  Installed as the private __builtins__ of every symbolically loaded module.
import builtins
import numbers

from .core import SSeq, SInt, SBool, If, S, Unsupported, is_sym, mkint


def s_len(x):
    f = getattr(type(x), "__sym_len__", None)
    if f is not None:
        return f(x)
    return builtins.len(x)


def _fold(args, pick_left):
    if builtins.len(args) == 1:
        args = builtins.list(args[0])
    if not args:
        raise ValueError("min()/max() arg is an empty sequence")
    r = args[0]
    for x in args[1:]:
        if is_sym(x) or is_sym(r):
            r = If(pick_left(x, r), x, r)
        elif pick_left(x, r):
            r = x
    return r


def s_min(*a, **kw):
    if kw:
        return builtins.min(*a, **kw)
    return _fold(a, lambda x, r: x < r)


def s_max(*a, **kw):
    if kw:
        return builtins.max(*a, **kw)
    return _fold(a, lambda x, r: x > r)


def s_range(*a):
    if builtins.all(isinstance(x, int) for x in a):
        return builtins.range(*a)
    if builtins.len(a) == 1:
        lo, hi, step = 0, a[0], 1
    elif builtins.len(a) == 2:
        lo, hi, step = a[0], a[1], 1
    else:
        lo, hi, step = a
    if isinstance(step, SInt):
        step = S().realize(step)
    if isinstance(lo, SInt):
        lo = S().realize(lo)

    def gen():
        i = lo
        if step > 0:
            while i < hi:
                yield i
                i = i + step
        else:
            while i > hi:
                yield i
                i = i + step

    return gen()


class _StrMeta(type):
    def __instancecheck__(cls, x):
        return isinstance(x, (builtins.str, SSeq))


class s_str(builtins.str, metaclass=_StrMeta):
    """str(): returns the symbolic data of a sequence-like object instead of realising it"""

    def __new__(cls, x="", *a, **kw):
        f = getattr(type(x), "__sym_str__", None)
        if f is not None and not a and not kw:
            return f(x)
        if isinstance(x, SSeq):
            return x
        return builtins.str(x, *a, **kw)


class _IntMeta(type):
    def __instancecheck__(cls, x):
        return isinstance(x, (builtins.int, SInt))


class s_int(builtins.int, metaclass=_IntMeta):
    def __new__(cls, x=0, *a, **kw):
        if isinstance(x, SInt):
            return x
        if isinstance(x, SBool):
            return If(x, 1, 0)
        if isinstance(x, SSeq):
            raise Unsupported("int() of a symbolic string")
        return builtins.int(x, *a, **kw)


def s_abs(x):
    if isinstance(x, SInt):
        return x.__abs__()
    return builtins.abs(x)


def s_divmod(a, b):
    if isinstance(a, SInt) or isinstance(b, SInt):
        return a // b, a % b
    return builtins.divmod(a, b)


def s_isinstance(x, t):
    if isinstance(x, SInt):
        ts = t if isinstance(t, tuple) else (t,)
        for c in ts:
            if c in (builtins.int, numbers.Integral, numbers.Number, numbers.Real, object) or c is s_int:
                return True
        return False
    if isinstance(x, SSeq):
        ts = t if isinstance(t, tuple) else (t,)
        for c in ts:
            if c in (builtins.str, object) or c is s_str:
                return True
        return builtins.isinstance(x, t)
    return builtins.isinstance(x, t)


def s_sum(xs, start=0):
    r = start
    for x in xs:
        r = r + x
    return r


def make_builtins(importer):
    bi = dict(vars(builtins))
    bi.update(len=s_len, min=s_min, max=s_max, range=s_range, str=s_str, int=s_int, abs=s_abs,
              divmod=s_divmod, isinstance=s_isinstance, sum=s_sum, __import__=importer)
    return bi
