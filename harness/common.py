# Helpers shared by the harnesses.  Everything here is polymorphic: it works on proxies (symbolic
# mode, sym stack) and on plain Python values (concrete mode, sym or real stack).
from symx.core import (And, Or, Not, Implies, Iff, If, Eq, Sum, Count, Min, Max, SSeq, SInt, SBool,
                       sdata, slen, sat, seq_eq, code_of, pmod, is_sym, scomp_code, supper_code, rc_codes)
from symx.run import Ob, OutOfDomain


def mod(x, n):
    """python x % n for concrete positive n"""
    return pmod(x, n)


def circ(seq, p, n):
    """letter code of a circular sequence of concrete length n at (possibly symbolic) p"""
    return sat(seq, mod(p, n))


def mk_parts(ctx, prefix, nparts, n, strand="sym"):
    """symbolic location parts inside the producible domain: 0 <= start < n, start <= end <= start+n"""
    parts = []
    for j in range(nparts):
        a = ctx.mk.int("%s_s%d" % (prefix, j), 0, n - 1)
        ln = ctx.mk.int("%s_l%d" % (prefix, j), 0, n)
        if strand == "sym":
            st = ctx.mk.int("%s_st%d" % (prefix, j), -1, 1)
        else:
            st = strand
        parts.append((a, a + ln, st))
    return parts


def build_location(stack, parts, operator="join", fuzzy=None):
    """fuzzy: None or a two-letter word per part over e(xact) b(efore, '<5') a(fter, '>5')"""
    def pos(v, kind):
        return v if kind == "e" else (stack.BeforePosition if kind == "b" else stack.AfterPosition)(v)

    if fuzzy is None:
        locs = [stack.SimpleLocation(s, e, strand=st) for (s, e, st) in parts]
    else:
        locs = [stack.SimpleLocation(pos(s, fz[0]), pos(e, fz[1]), strand=st) for (s, e, st), fz in zip(parts, fuzzy)]
    if len(locs) == 1:
        return locs[0]
    return stack.CompoundLocation(locs, operator=operator)


def build_feature(stack, parts, ftype="misc_feature", quals=None, fid="<unknown id>", operator="join", fuzzy=None):
    return stack.SeqFeature(build_location(stack, parts, operator, fuzzy), type=ftype, id=fid,
                            qualifiers=quals if quals is not None else {})


def location_kinds(feature):
    """[(kind of start, kind of end)] per part: 'exact' | 'before' | 'after'"""
    from symx.models.bio import position_kind

    return [(position_kind(p.start), position_kind(p.end)) for p in feature.location.parts]


def parts_of(feature):
    return [(p.start, p.end, p.strand) for p in feature.location.parts]


def ival(x):
    """ExactPosition -> int (leave proxies alone)"""
    if isinstance(x, (SInt, SBool)):
        return x
    return int(x)


def strand_eq(a, b):
    if a is None or b is None:
        return a is None and b is None
    return Eq(ival(a), ival(b))


def new_record(ctx, data, cls=None, **kw):
    st = ctx.stack
    seq = st.Seq(data)
    cls = cls or st.record.CircularRecord
    return cls(seq, **kw)


def quals_equal(qa, qb):
    """qualifier dicts with plain python values"""
    return dict(qa) == dict(qb)


def rotations_equal(a, b, n):
    """sequence a (length n) equals b letter for letter"""
    return seq_eq(a, b)


def exists_rotation_eq(a, b, n):
    """a and b (both concrete length n) are equal as circular words"""
    alts = []
    for r in range(n):
        alts.append(And([Eq(sat(a, j), sat(b, (j + r) % n)) for j in range(n)]))
    return Or(alts)


def enzyme_geometry(enz):
    """(site, offset, ovhg_len) for a 5'-overhang single-cut enzyme cutting downstream:
    forward site at p -> top-strand cut after p+|site|+offset letters, overhang = next ovhg letters"""
    site = enz.site
    off = enz.fst5 - len(site)
    return site, off, -enz.ovhg


def tier_pick(tier, quick, thorough):
    return quick if tier == "quick" else thorough
