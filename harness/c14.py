# C14 - reverse complement of a circular record stays circular and loses nothing.
# Code executed symbolically: CircularRecord.reverse_complement, __init__ (re-wrap through
# SeqRecord._from_validated), __rshift__/__lshift__ (moclo/moclo/record.py).
from .common import *

ID = "C14"
LEVEL_TEXT = ("Bounded verification by symbolic execution of the real CircularRecord.reverse_complement (and >>/<< for the "
              "commutation clause) over validated Biopython models: for every record length up to the bound, all letters, all "
              "feature coordinates (including parts that extend past the end), strands and rotation amounts, z3 shows the result "
              "is a CircularRecord of the caller's class with the reverse-complement sequence, that applying it twice restores "
              "sequence and feature denotations, that each part is mapped to the mirrored position on the opposite strand, and "
              "that reverse complement commutes with rotation.  Bounded claim.")
LEVEL_NOTE = ("Bounds: n<=14 quick / n<=24 thorough; 1-2 features of 1-2 parts. The coordinate flip itself is Biopython's "
              "(modelled statement by statement, validated differentially); the repository-side content is argument "
              "pass-through, re-wrapping and the interaction with >>. Trusted: z3, CPython, symx models.")
LEVEL_NOTE_EXTRA = 'CDS- and source-typed features; edits (feature appended, sequence replaced) between two reverse complements.'
TECHNIQUE = "bounded symbolic execution of the real Python source (symx) with z3; replay on the real stack"
EXPLANATION = ("symbolic execution of CircularRecord.reverse_complement/__init__/__rshift__ on symbolic records with symbolic "
               "feature tables; z3 decides every clause")
ASSUMPTIONS = [
    "record length case-split; letters over ACGT; k unbounded",
    "feature parts in the producible domain 0 <= start < n, start <= end <= start+n; strands symbolic in {-1,0,1} or all None",
    "Bio.Seq/SeqRecord/SeqFeature replaced by validated models (the _flip arithmetic is the model's)",
]


def bounds(tier):
    return dict(n_max=tier_pick(tier, 14, 24), features_max=2, parts_max=2, k="unbounded integer")


FTYPES = ["source", "CDS"]


def _flip_strand(st):
    if st is None:
        return None
    return If(Eq(st, 1), -1, If(Eq(st, -1), 1, st))


def _make(ctx, n, shape, strand):
    st = ctx.stack
    r = ctx.mk.seq("r", n, "ACGT")
    feats, specs = [], []
    for fi, nparts in enumerate(shape):
        parts = mk_parts(ctx, "f%d" % fi, nparts, n, strand=strand)
        feats.append(build_feature(st, parts, FTYPES[fi % len(FTYPES)] if ctx.P.get("source") else "CDS",
                                   {"label": ["f%d" % fi], "plain": "text", "n": 1}, fid="id%d" % fi))
        specs.append(parts)
    rec = st.record.CircularRecord(st.Seq(r), id="rid", name="rn", description="rd", features=feats,
                                   annotations={"topology": "circular"})
    return r, specs, rec


def _by_id(rec):
    return {f.id: f for f in rec.features}


def _mirrored(ctx, old, new, n, label, all_none):
    """new parts = old parts mirrored (n - end, n - start), strands flipped; order kept unless all strandless"""
    ctx.require(len(new) == len(old), label + ":part-count")
    src = list(reversed(old)) if all_none else old
    for j, ((s, e, stx), (s2, e2, st2)) in enumerate(zip(src, new)):
        s2, e2 = ival(s2), ival(e2)
        ctx.require(Eq(e2 - s2, e - s), "%s:part%d-length" % (label, j))
        ctx.require(strand_eq(st2, _flip_strand(stx)), "%s:part%d-strand" % (label, j))
        ctx.require(Implies(And(e > s, e - s < n), Eq(mod(s2 + e, n), 0)), "%s:part%d-position" % (label, j))


def _same(ctx, a_parts, b_parts, n, label):
    ctx.require(len(a_parts) == len(b_parts), label + ":part-count")
    for j, ((s, e, stx), (s2, e2, st2)) in enumerate(zip(a_parts, b_parts)):
        s, e, s2, e2 = ival(s), ival(e), ival(s2), ival(e2)
        ctx.require(Eq(e2 - s2, e - s), "%s:part%d-length" % (label, j))
        ctx.require(strand_eq(st2, stx), "%s:part%d-strand" % (label, j))
        ctx.require(Implies(And(e > s, e - s < n), Eq(mod(s2 - s, n), 0)), "%s:part%d-position" % (label, j))


def ob_rc(ctx):
    P = ctx.P
    n = P["n"]
    st = ctx.stack
    r, specs, rec = _make(ctx, n, P["shape"], P["strand"])
    out = rec.reverse_complement()
    ctx.observe("out", out)
    ctx.require(type(out) is type(rec) and isinstance(out, st.record.CircularRecord), "type")
    o = sdata(out.seq)
    ctx.require(Eq(slen(o), n), "length")
    ctx.require(And([Eq(sat(o, j), scomp_code(sat(r, n - 1 - j))) for j in range(n)]), "sequence")
    ctx.require(len(out.features) == len(specs), "feature-count")
    fo = _by_id(out)
    all_none = P["strand"] is None
    for fi, parts in enumerate(specs):
        g = fo.get("id%d" % fi)
        want_type = FTYPES[fi % len(FTYPES)] if P.get("source") else "CDS"
        ctx.require(g is not None and g.type == want_type and dict(g.qualifiers) == {"label": ["f%d" % fi], "plain": "text", "n": 1}, "feature-identity")
        _mirrored(ctx, parts, parts_of(g), n, "flip-f%d" % fi, all_none)
    back = out.reverse_complement()
    ctx.require(isinstance(back, st.record.CircularRecord), "type-twice")
    ctx.require(seq_eq(back.seq, r), "twice-sequence")
    fb = _by_id(back)
    for fi, parts in enumerate(specs):
        _same(ctx, parts, parts_of(fb["id%d" % fi]), n, "twice-f%d" % fi)
    ctx.witness("part-past-end", Or([e > n for parts in specs for (s, e, _) in parts]))
    return True


def ob_commute(ctx):
    """(r >> k).reverse_complement() == r.reverse_complement() << k"""
    P = ctx.P
    n = P["n"]
    r, specs, rec = _make(ctx, n, P["shape"], P["strand"])
    from .c13 import _rotation_amount

    k = _rotation_amount(ctx, "k", n)  # unbounded integer; residue case-split above n = 10
    a = (rec >> k).reverse_complement()
    b = rec.reverse_complement() << k
    ctx.observe("a", a)
    ctx.observe("b", b)
    ctx.require(seq_eq(a.seq, b.seq), "commute-sequence")
    fa, fb = _by_id(a), _by_id(b)
    ctx.require(sorted(fa) == sorted(fb) and len(fa) == len(specs), "commute-feature-count")
    for fid in fa:
        _same(ctx, parts_of(fa[fid]), parts_of(fb[fid]), n, "commute-%s" % fid)
    return True


def ob_subclass(ctx):
    """the result is an instance of the caller's own class"""
    st = ctx.stack
    r = ctx.mk.seq("r", 5, "ACGT")

    class MyRecord(st.record.CircularRecord):
        pass

    rec = MyRecord(st.Seq(r), id="x")
    out = rec.reverse_complement(id=True, name=True, description=True)
    ctx.require(type(out) is MyRecord, "subclass-type")
    ctx.require(out.id == "x", "id-passthrough")
    o = sdata(out.seq)
    ctx.require(And([Eq(sat(o, j), scomp_code(sat(r, 4 - j))) for j in range(5)]), "sequence")
    return True


def ob_edit_between(ctx):
    """the reverse complement is computed from the record as it is now: edits made to an earlier result are honoured and
    results never alias an earlier record"""
    st = ctx.stack
    n = ctx.P["n"]
    r, specs, rec = _make(ctx, n, (1,), "sym")
    r1 = rec.reverse_complement()
    ctx.require(r1 is not rec, "result-aliases-the-receiver")
    extra = mk_parts(ctx, "x", 1, n)
    r1.features.append(build_feature(st, extra, "primer_bind", {"label": ["new"]}, fid="idx"))
    if ctx.P["edit_seq"]:
        s2 = ctx.mk.seq("s2", n, "ACGT")
        r1.seq = st.Seq(s2)
    else:
        s2 = None
    out = r1.reverse_complement()
    ctx.observe("out", out)
    ctx.require(out is not rec and out is not r1, "second-result-aliases-an-earlier-record")
    o = sdata(out.seq)
    if s2 is None:
        ctx.require(seq_eq(o, r), "twice-sequence")
    else:
        ctx.require(And([Eq(sat(o, j), scomp_code(sat(s2, n - 1 - j))) for j in range(n)]), "edited-sequence-ignored")
    fo = _by_id(out)
    ctx.require(sorted(fo) == ["id0", "idx"], "feature-added-in-between-lost:%s" % sorted(fo))
    _mirrored(ctx, extra, parts_of(fo["idx"]), n, "flip-new", False)
    _same(ctx, specs[0], parts_of(fo["id0"]), n, "twice-f0")
    # the original is untouched by all of this
    ctx.require(len(rec.features) == 1 and seq_eq(rec.seq, r), "original-changed")
    return True


def obligations(tier, seed):
    obs = []
    nmax = tier_pick(tier, 14, 24)
    for n in range(1, nmax + 1):
        shapes = [(1,), (2,)]
        if n <= tier_pick(tier, 6, 10):
            shapes.append((1, 1))
        if tier != "quick" and n <= 8:
            shapes.append((2, 1))
        for shape in shapes:
            strand = None if (n + len(shape)) % 4 == 0 else "sym"
            name = "n=%d shape=%s strand=%s" % (n, "+".join(map(str, shape)), strand)
            c = n * sum(shape) ** 2 * len(shape) ** 2
            obs.append(Ob("rc " + name, ob_rc, dict(n=n, shape=shape, strand=strand), samples=5, cost=c))
            if n <= tier_pick(tier, 14, 24) and sum(shape) <= 2:
                obs.append(Ob("commute " + name, ob_commute, dict(n=n, shape=shape, strand=strand), samples=5, cost=3 * c))
    for n in ((2, 5, 8) if tier == "quick" else (2, 3, 5, 8, 12, 16)):
        for shape in ((1,), (2,), (1, 1)):
            obs.append(Ob("rc n=%d shape=%s with source-typed features" % (n, "+".join(map(str, shape))), ob_rc,
                          dict(n=n, shape=shape, strand="sym", source=True), samples=5, cost=n * 20))
        obs.append(Ob("commute n=%d with a source-typed feature" % n, ob_commute,
                      dict(n=n, shape=(1,), strand="sym", source=True), samples=5, cost=n * 40))
    obs.append(Ob("subclass and argument pass-through", ob_subclass, {}, samples=2, cost=1))
    for n in ((3, 6) if tier == "quick" else (2, 3, 5, 8, 10)):
        for edit_seq in (False, True):
            obs.append(Ob("edit between two reverse complements n=%d%s" % (n, " (sequence replaced)" if edit_seq else ""),
                          ob_edit_between, dict(n=n, edit_seq=edit_seq), samples=4, cost=n * 10))
    return obs
