#!/bin/bash
# Build the overlay interpreter used by every check: /venv (the repository's own environment)
# + z3-solver / crosshair-tool / cvc5 from the offline wheelhouse.  Idempotent, lock guarded.
set -e
HERE="$(cd "$(dirname "$0")" && pwd)"
VENV="$HERE/.venv"
STAMP="$VENV/.ok-v2"
[ -f "$STAMP" ] && exit 0
exec 9>"$HERE/.bootstrap.lock"
flock 9
[ -f "$STAMP" ] && exit 0
rm -rf "$VENV"
/venv/bin/python -m venv "$VENV" >/dev/null
SP="$("$VENV/bin/python" -c 'import sysconfig; print(sysconfig.get_paths()["purelib"])')"
BASE_SP="$(/venv/bin/python -c 'import sysconfig; print(sysconfig.get_paths()["purelib"])')"
echo "import site; site.addsitedir('$BASE_SP')" > "$SP/_verif_overlay.pth"
PIP_NO_INDEX=1 "$VENV/bin/python" -m pip install -q --no-index --find-links /opt/veriftools/wheels \
    z3-solver crosshair-tool cvc5 >/dev/null 2>&1 || \
PIP_NO_INDEX=1 "$VENV/bin/python" -m pip install -q --no-index --find-links /opt/veriftools/wheels z3-solver
"$VENV/bin/python" -c 'import z3, Bio, six, property_cached; print("overlay ok: z3", z3.get_version_string(), "Bio", Bio.__version__)'
touch "$STAMP"
