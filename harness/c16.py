# C16 - DNA pattern search: IUPAC letter sets, leftmost/windowed/circular search, group extraction.
# Code executed symbolically: DNARegex._transcribe/__init__/search, SeqMatch.* (moclo/moclo/regex.py),
# CircularRecord.__getitem__ (record.py) for group slices.
from .common import *

ID = "C16"
LEVEL_TEXT = ("Bounded verification by symbolic execution of the real DNARegex/SeqMatch code: (a) all 15 IUPAC pattern letters "
              "against a symbolic target letter in both cases; (b) for a family of pattern shapes (capture groups, greedy and "
              "lazy wildcard runs, bounded repeats) and all four target kinds, z3 shows that for every target content, pos and "
              "endpos the reported start is the leftmost declarative match in range, the match never exceeds one turn, linear "
              "targets never wrap, and every group's text is the circular read of its span; (c) group extraction on arbitrary "
              "symbolic spans.  Bounded claim.")
LEVEL_NOTE = ("Bounds: target length n<=10 quick / n<=14 thorough for the shape family (search), n<=10/16 for group extraction; kit patterns at n=F..F+1 (thorough). "
              "Lower-case *pattern* letters are outside the claim (every structure() writes upper case). The per-position letter "
              "predicate of the oracle comes from Bio.Data.IUPACData, the CPython regex semantics from the symx re model "
              "(validated against `re` on every run). Trusted: z3, CPython, symx models.")
LEVEL_NOTE_EXTRA = 'three kit patterns at n=F+1 in the quick tier; besides leftmost start / one turn / span-text agreement, the extent of the match and of every group must be the one CPython regex semantics gives on the one-turn reading at the reported start. Also: the same pattern object searching the same record object after its sequence was replaced; literal prefixes that overlap themselves; a shape with three wildcard runs.'
TECHNIQUE = "bounded symbolic execution of the real Python source (symx) with z3; declarative-match oracle; replay on the real stack"
EXPLANATION = ("symbolic execution of moclo/regex.py on symbolic targets: the search loop, the one-turn window on the doubled "
               "string, Seq/SeqRecord/CircularRecord dispatch and SeqMatch.group's wrap-around arithmetic are decided by z3 "
               "against a declarative oracle (exists a match at i on the circular/linear reading)")
ASSUMPTIONS = [
    "targets are over ACGT (search) or ACGT x case (letter table); pattern letters are upper case",
    "pattern shapes: literals, IUPAC letters, capture groups, X*, X*?, X+, X?, X{m,n} on a single letter (<= 4 runs)",
    "CPython `re` is replaced by an SMT model encoding its backtracking order, validated against the real `re`",
    "1 <= n <= bound, 0 <= pos, endpos <= n+2 (plus the default endpos)",
]

IUPAC15 = "ACGTRYSWKMBDHVN"


def iupac_values():
    from Bio.Data import IUPACData

    return {k: set(v) for k, v in IUPACData.ambiguous_dna_values.items()}


def oracle_regex(pattern):
    """the pattern with every IUPAC letter expanded from Bio.Data.IUPACData (independent of moclo's table)"""
    vals = iupac_values()
    out = ["(?i)"]
    for ch in pattern:
        if ch in vals and ch.isupper() and ch not in "ACGT":
            out.append("[" + "".join(sorted(vals[ch])) + "]")
        else:
            out.append(ch)
    return "".join(out)


def bounds(tier):
    return dict(n_max=tier_pick(tier, 10, 14), shapes=len(SHAPES if tier != "quick" else SHAPES[:15]),
                target_kinds=["Seq linear", "Seq searched with linear=False", "SeqRecord", "CircularRecord"],
                pos_endpos="0..n+2 and default")


# ------------------------------------------------------------------------------------------------
def ob_letter(ctx):
    """(a) a pattern letter matches exactly its IUPAC set, in either case"""
    st = ctx.stack
    code = ctx.P["code"]
    t = ctx.mk.seq("t", 1, ctx.P["alphabet"])
    rx = st.regex.DNARegex(code)
    m = rx.search(st.Seq(t))
    matched = m is not None
    ctx.observe("matched", matched)
    allowed = iupac_values()[code]
    u = supper_code(sat(t, 0))
    want = Or([Eq(u, code_of(c)) for c in sorted(allowed)])
    if ctx.P["alphabet"] != "ACGTacgt":
        # non-nucleotide target letters: only nucleotides are constrained by the property
        isnuc = Or([Eq(u, code_of(c)) for c in "ACGT"])
        ctx.require(Implies(isnuc, Iff(matched, want)), "letter-set")
    else:
        ctx.require(Iff(matched, want), "letter-set")
    ctx.witness("match", matched is True)
    # in context: the letter between two fixed letters
    t3 = ctx.mk.seq("t3", 3, "ACGTacgt")
    rx3 = st.regex.DNARegex("A" + code + "T")
    m3 = rx3.search(st.Seq(t3))
    u0, u1, u2 = (supper_code(sat(t3, j)) for j in range(3))
    want3 = And(Eq(u0, code_of("A")), Or([Eq(u1, code_of(c)) for c in sorted(allowed)]), Eq(u2, code_of("T")))
    ctx.require(Iff(m3 is not None, want3), "letter-in-context")
    return True


def _target(ctx, kind, r):
    st = ctx.stack
    if kind == "seq":
        return st.Seq(r), True, dict(linear=True)
    if kind == "seq-circ":
        return st.Seq(r), False, dict(linear=False)
    if kind == "rec":
        return st.SeqRecord(st.Seq(r), id="x"), True, {}
    if kind == "circ":
        return st.record.CircularRecord(st.Seq(r), id="x"), False, {}
    raise ValueError(kind)


def ob_search(ctx):
    """(b) leftmost start in the requested range; one-turn window; groups read circularly"""
    from symx.models.re_model import SymPattern

    st = ctx.stack
    P = ctx.P
    n = P["n"]
    pattern = P["pattern"]
    r = ctx.mk.seq("r", n, "ACGT")
    rx = st.regex.DNARegex(pattern)
    if P.get("history"):
        # the same pattern object already searched the same record object while it held other letters
        r0 = ctx.mk.seq("r0", n, "ACGT")
        target, linear, kw = _target(ctx, P["kind"], r0)
        rx.search(target, **kw)
        target.seq = st.Seq(r)
    else:
        target, linear, kw = _target(ctx, P["kind"], r)
    if P["window"]:
        pos = ctx.mk.int("pos", 0, n + 2)
        endpos = ctx.mk.int("endpos", 0, n + 2)
        m = rx.search(target, pos, endpos, **kw)
        hi = Min(endpos, n)
    else:
        pos = 0
        m = rx.search(target, **kw)
        hi = n
    OP = SymPattern(oracle_regex(pattern))
    R = SSeq.lift(r)
    dd = R + R

    def exists(i):
        data = R[i:] if linear else dd[i:i + n]
        room = (n - i) if linear else n
        alts = [OP.valid(data, 0, t, room) for t in OP._vectors(0, room)]
        return Or(alts)

    ex = [exists(i) for i in range(n)]

    def inwin(i):
        return And(pos <= i, i < hi)

    if m is None:
        ctx.observe("match", None)
        ctx.require(And([Not(And(inwin(i), ex[i])) for i in range(n)]), "no-match-but-one-exists")
        ctx.witness("none")
        return True
    s0, e0 = m.start(), m.end()
    ctx.observe("span", [ival(s0), ival(e0)])
    ctx.require(Or([And(Eq(s0, i), inwin(i), ex[i], And([Not(And(inwin(q), ex[q])) for q in range(i)]))
                    for i in range(n)]), "start-not-leftmost-match")
    ctx.require(And(s0 <= e0, e0 - s0 <= n), "more-than-one-turn")
    if linear:
        ctx.require(e0 <= n, "linear-match-wraps")
    # the extent of the match and of every group is the one regular-expression semantics gives on the one-turn reading
    # that starts at the reported position (greedy runs as long as possible, lazy runs as short as possible)
    if isinstance(s0, int):
        room = (n - s0) if linear else n
        if isinstance(r, str):
            import re as _re

            ref = _re.compile(oracle_regex(pattern)).match(r[s0:] if linear else (r + r)[s0:s0 + n], 0, room)
        else:
            ref = OP.match(R[s0:] if linear else dd[s0:s0 + n], 0, room)
        ctx.require(ref is not None, "no-regex-match-at-the-reported-start")
        if ref is not None:
            for g in range(0, OP.groups + 1):
                a, b = m.span(g)
                ra, rb = ref.span(g)
                ctx.require(And(Eq(ival(a), ra + s0), Eq(ival(b), rb + s0)), "group%d-extent-differs-from-regex-semantics" % g)
    ctx.witness("wraps", e0 > n)
    ctx.witness("ends-at-len", Eq(e0, n))
    # groups: text == circular read of the span, spans nested in the match
    for g in range(0, OP.groups + 1):
        a, b = m.span(g)
        a, b = ival(a), ival(b)
        ctx.require(And(s0 <= a, a <= b, b <= e0), "group-span-outside-match")
        txt = m.group(g)
        d = sdata(txt)
        ctx.observe("g%d" % g, d)
        ctx.require(Eq(slen(d), b - a), "group-length")
        ctx.require(And([Implies(j < b - a, Eq(sat(d, j), circ(r, a + j, n))) for j in range(n)]), "group-text")
        ctx.witness("group-straddles-end", And(a < n, b > n))
        ctx.witness("group-past-end", a >= n)
    return True


class FakeMatch(object):
    def __init__(self, spans):
        self.spans = spans

    def span(self, g=0):
        return self.spans[g]

    def start(self, g=0):
        return self.spans[g][0]

    def end(self, g=0):
        return self.spans[g][1]


def ob_group(ctx):
    """(c) SeqMatch.group on arbitrary spans a circular search can report"""
    st = ctx.stack
    P = ctx.P
    n = P["n"]
    r = ctx.mk.seq("r", n, "ACGT")
    i = ctx.mk.int("i", 0, n - 1)
    a = ctx.mk.int("a", 0, 2 * n)
    b = ctx.mk.int("b", 0, 2 * n)
    ctx.assume(And(i <= a, a <= b, b <= i + n))
    kind = P["kind"]
    if kind == "seq":
        rec = st.Seq(r)
    elif kind == "rec":
        rec = st.SeqRecord(st.Seq(r), id="x")
    else:
        rec = st.record.CircularRecord(st.Seq(r), id="x")
    sm = st.regex.SeqMatch(FakeMatch({0: (i, b), 1: (a, b)}), rec)
    ctx.require(And(Eq(ival(sm.start()), i), Eq(ival(sm.end()), b)), "start-end")
    sp1 = sm.span(1)
    ctx.require(And(Eq(ival(sp1[0]), a), Eq(ival(sp1[1]), b)), "span")
    g = sm.group(1)
    ctx.require(type(g) is (st.Seq if kind == "seq" else st.SeqRecord), "group-type")
    d = sdata(g)
    ctx.observe("g", d)
    ctx.require(Eq(slen(d), b - a), "group-length")
    ctx.require(And([Implies(j < b - a, Eq(sat(d, j), circ(r, a + j, n))) for j in range(n)]), "group-text")
    ctx.witness("inside", b < n)
    ctx.witness("straddles", And(a < n, b > n))
    ctx.witness("past-end", a >= n)
    ctx.witness("ends-at-len", Eq(b, n))
    return True


SHAPES = [
    "AA(N)T", "ACA(N*?)G", "GNNNNNNNN(NN)C", "GA(N*)TC", "GA(N*?)TC", "A(NN*N)(K)C", "(M)GN*?(T)", "R(N)Y", "(GG)N{1,3}(CC)",
    "G(N)(N*)(N)C", "(S)(W+)(S)", "AN?T", "(A(N)T)", "C(N*)G(N*?)C", "(NN)(N*?)(NN)T",
    "GGTCTCN(NN)", "(B)(D*)(H)", "T(V+?)A", "(A)(C*)(G*)T", "N(N*?)N", "(K{2,3})M",
    "GAAGAC(NN)(N*?)A", "(Y)(R*)(Y)(R*?)G", "G(N+)A(N*)T(N*?)C", "A(N{0,2})C", "((G)(N*))T", "W(S*?)W", "(N)(N)(N)",
]


def obligations(tier, seed):
    obs = []
    for code in IUPAC15:
        obs.append(Ob("letter %s vs ACGT x case" % code, ob_letter, dict(code=code, alphabet="ACGTacgt"),
                      samples=8, cost=1))
    for code in ("N", "R", "B"):
        obs.append(Ob("letter %s vs all IUPAC letters" % code, ob_letter, dict(code=code, alphabet="IUPACcase"),
                      samples=8, cost=1))
    nmax = tier_pick(tier, 10, 14)
    shapes = SHAPES[:15] if tier == "quick" else SHAPES
    kinds = ["seq", "seq-circ", "rec", "circ"]
    import random

    rng = random.Random(seed)
    for si, pat in enumerate(shapes):
        for ki, kind in enumerate(kinds):
            if tier == "quick":
                ns = [nmax - ((si + ki) % 3)]
                if (si + ki) % 4 == 0:
                    ns.append(3 + (si % 3))
            else:
                ns = list(range(max(2, nmax - 5), nmax + 1, 1 if kind == "circ" else 2))
            from .rblock import fixed_letters

            ns = sorted({max(n, fixed_letters(pat) + 1) if n > 6 else n for n in ns})
            for n in ns:
                window = ((si + ki + n) % 2 == 0) if tier == "quick" else True
                obs.append(Ob("search %s on %s n=%d %s" % (pat, kind, n, "pos/endpos" if window else "default-range"),
                              ob_search, dict(pattern=pat, kind=kind, n=n, window=window), samples=6,
                              cost=n * n * (3 if window else 1)))
                if tier != "quick":
                    obs.append(Ob("search %s on %s n=%d default-range" % (pat, kind, n), ob_search,
                                  dict(pattern=pat, kind=kind, n=n, window=False), samples=4, cost=n * n))
    # the structure patterns of the kit classes themselves (read from /repo at run time), on circular records
    from .c04 import class_params

    kp = [(params, pat, F) for params, pat, F in class_params("thorough", seed) if params["src"] == "kit"]
    if tier == "quick":
        kp = [x for x in kp if x[0]["cls"] in ("YTKPart234r", "YTKProduct", "CIDAREntryVector")]
    seen = set()
    for params, pat, F in kp:
        if pat in seen:
            continue
        seen.add(pat)
        for n in ([F + 1] if tier == "quick" else [F, F + 2]):
            obs.append(Ob("search kit pattern of %s.%s on circ n=%d default-range" % (params["kit"], params["cls"], n),
                          ob_search, dict(pattern=pat, kind="circ", n=n, window=False), samples=4, cost=n * n * 2,
                          group="kit pattern %s" % pat))
    for kind, pat, n in tier_pick(tier, [("circ", "GA(N*)TC", 6), ("rec", "R(N)Y", 5)],
                                  [("circ", "GA(N*)TC", 8), ("rec", "R(N)Y", 6), ("circ", "(S)(W+)(S)", 7), ("rec", "GA(N*?)TC", 7)]):
        obs.append(Ob("search %s on a %s whose sequence was replaced after an earlier search n=%d" % (pat, kind, n), ob_search,
                      dict(pattern=pat, kind=kind, n=n, window=False, history=True), samples=6, cost=2 * n * n, group="history"))
    gmax = tier_pick(tier, 10, 16)
    for kind in ("seq", "rec", "circ"):
        for n in range(1, gmax + 1):
            obs.append(Ob("group on %s n=%d" % (kind, n), ob_group, dict(kind=kind, n=n), samples=6, cost=n))
    return obs
