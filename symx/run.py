# Obligation runner: concrete differential validation of the models, symbolic exploration of every
# obligation (parallel, one process per obligation), concretisation + replay of counterexamples on
# the real stack, known-findings filter, evidence file, exit-code discipline.
import importlib
import json
import multiprocessing
import os
import random
import sys
import time
import traceback

VERIF = os.path.dirname(os.path.dirname(os.path.abspath(__file__)))
EXIT_OK, EXIT_VIOLATION, EXIT_HARNESS = 0, 1, 2


class OutOfDomain(Exception):
    """a concrete sample does not satisfy the harness's assumptions"""


class PropertyFail(Exception):
    """a labelled requirement of the harness is false on concrete inputs"""


class Ob(object):
    """one proof obligation: fn(ctx) -> ok, run under params; `fixed` = extra concrete samples"""

    def __init__(self, name, fn, params=None, fixed=(), samples=6, timeout_ms=None, budget_s=None,
                 expect_witness=(), max_paths=200000, group=None, cost=1.0):
        self.name = name
        self.fn = fn
        self.params = params or {}
        self.fixed = list(fixed)
        self.samples = samples
        self.timeout_ms = timeout_ms
        self.budget_s = budget_s
        self.expect_witness = tuple(expect_witness)
        self.max_paths = max_paths
        self.group = group or name
        self.cost = cost


# ------------------------------------------------------------------------------------------------
# input factories


class _Mk(object):
    mode = None

    def __init__(self):
        self.values = {}
        self.order = []


class SymMk(_Mk):
    mode = "sym"

    def __init__(self, sp):
        _Mk.__init__(self)
        self.sp = sp

    def seq(self, name, n, alphabet="ACGT", maxlen=None):
        from .core import SSeq, ALPHABETS

        codes = ALPHABETS[alphabet] if isinstance(alphabet, str) else list(alphabet)
        v = SSeq.fresh(self.sp, name, n, maxlen=maxlen, codes=codes)
        self.values[name] = ("seq", v)
        return v

    def int(self, name, lo=None, hi=None):
        import z3
        from .core import SInt

        e = z3.Int(name)
        if lo is not None:
            self.sp.add(e >= lo)
        if hi is not None:
            self.sp.add(e <= hi)
        v = SInt(e)
        self.values[name] = ("int", v)
        return v

    def bool(self, name):
        import z3
        from .core import SBool

        v = SBool(z3.Bool(name))
        self.values[name] = ("bool", v)
        return v

    def pick(self, name, k):
        """a concrete choice in range(k), every choice explored (fork per value)"""
        v = self.int(name, 0, k - 1)
        c = self.sp.realize(v)
        return c

    def track(self, name, n, maxlen=None, lo=None, hi=None):
        """a per-letter annotation track of arbitrary integer values (optionally lo..hi)"""
        from .core import SSeq

        v = SSeq.fresh(self.sp, name, n, maxlen=maxlen,
                       codes=list(range(lo, hi + 1)) if lo is not None and hi is not None else None)
        v.hint = None
        v.kind = "track"
        self.values[name] = ("track", v)
        return v

    def concretize(self, model):
        import z3

        out = {}
        for name, (kind, v) in self.values.items():
            if kind == "seq":
                out[name] = v.concretize_str(model)
            elif kind == "track":
                out[name] = v.concretize(model)
            elif kind == "int":
                out[name] = model.eval(v.e, model_completion=True).as_long()
            elif kind == "bool":
                out[name] = bool(z3.is_true(model.eval(v.e, model_completion=True)))
        return out


class FixedMk(_Mk):
    mode = "fixed"

    def __init__(self, values):
        _Mk.__init__(self)
        self.given = values

    def _get(self, name):
        if name not in self.given:
            raise OutOfDomain("no value for input %r" % name)
        v = self.given[name]
        self.values[name] = v
        return v

    def seq(self, name, n, alphabet="ACGT", maxlen=None):
        v = self._get(name)
        from .core import SInt

        if isinstance(n, int) and len(v) != n:
            raise OutOfDomain("length of %s" % name)
        return v

    def int(self, name, lo=None, hi=None):
        v = self._get(name)
        if (lo is not None and v < lo) or (hi is not None and v > hi):
            raise OutOfDomain("range of %s" % name)
        return v

    def bool(self, name):
        return bool(self._get(name))

    def pick(self, name, k):
        return self.int(name, 0, k - 1)

    def track(self, name, n, maxlen=None, lo=None, hi=None):
        v = list(self._get(name))
        if lo is not None and any(x < lo or x > hi for x in v):
            raise OutOfDomain("range of %s" % name)
        return v


class RandomMk(_Mk):
    mode = "random"

    def __init__(self, rng):
        _Mk.__init__(self)
        self.rng = rng

    def seq(self, name, n, alphabet="ACGT", maxlen=None):
        from .core import ALPHABETS, char_of

        codes = ALPHABETS[alphabet] if isinstance(alphabet, str) else list(alphabet)
        if not isinstance(n, int):
            raise OutOfDomain("random sample needs a concrete length")
        v = "".join(char_of(self.rng.choice(codes)) for _ in range(n))
        self.values[name] = v
        return v

    def int(self, name, lo=None, hi=None):
        r = self.rng
        if lo is None and hi is None:
            v = r.choice([r.randint(-3, 3), r.randint(-40, 40), r.randint(-1000, 1000)])
        elif lo is None:
            v = hi - r.choice([0, 1, r.randint(0, 50)])
        elif hi is None:
            v = lo + r.choice([0, 1, r.randint(0, 50)])
        else:
            v = r.randint(lo, hi)
        self.values[name] = v
        return v

    def bool(self, name):
        v = self.rng.random() < 0.5
        self.values[name] = v
        return v

    def pick(self, name, k):
        return self.int(name, 0, k - 1)

    def track(self, name, n, maxlen=None, lo=None, hi=None):
        v = [self.rng.randint(0 if lo is None else lo, 99 if hi is None else hi) for _ in range(n)]
        self.values[name] = v
        return v


class ReplayMk(object):
    """second construction of the same inputs: hands out the values already created under the same names"""

    def __init__(self, mk):
        self.mk = mk
        self.mode = mk.mode
        self.values = mk.values
        self.sp = getattr(mk, "sp", None)

    def _again(self, name):
        v = self.mk.values[name]
        if self.mk.mode == "sym":
            return v[1]
        return v

    def seq(self, name, n, alphabet="ACGT", maxlen=None):
        return self._again(name)

    def track(self, name, n, maxlen=None, lo=None, hi=None):
        return self._again(name)

    def bool(self, name):
        return self._again(name)

    def int(self, name, lo=None, hi=None):
        return self._again(name)

    def pick(self, name, k):
        v = self._again(name)
        if self.mk.mode == "sym":
            return self.mk.sp.realize(v)
        return v


# ------------------------------------------------------------------------------------------------


class Ctx(object):
    def __init__(self, stack, mk, params, space=None, shared=None):
        self.stack = stack
        self.mk = mk
        self.P = params
        self.sp = space
        self.obs = []
        self.asserted = False
        self.shared = shared if shared is not None else {}
        self.symbolic = mk.mode == "sym"

    def assume(self, cond):
        from .core import SBool

        if self.symbolic:
            self.sp.assume(cond)
        else:
            if isinstance(cond, SBool):
                raise RuntimeError("symbolic condition in concrete mode")
            if not cond:
                raise OutOfDomain("assumption")

    def observe(self, name, value):
        if not self.symbolic:
            self.obs.append((name, normalise(value)))

    def witness(self, name, cond=True):
        """record that some explored path can satisfy cond (coverage witness)"""
        if not self.symbolic:
            if cond is True or cond:
                self.shared.setdefault("witness_concrete", set()).add(name)
            return
        seen = self.shared.setdefault("witness", set())
        if name in seen:
            return
        from .core import SBool
        import z3

        if isinstance(cond, SBool):
            cond = cond.e
        if cond is False:
            return
        if cond is True:
            seen.add(name)
            return
        try:
            if self.sp._check(cond) == "sat":
                seen.add(name)
        except BaseException:
            pass

    def checked(self):
        """mark that this path reaches a real assertion (vacuity twin)"""
        self.asserted = True

    def require_exists(self, witness, full, label):
        """assert an existential: `witness` is a cheap sufficient instance (tried first); `full()` builds the
        complete disjunction and is only consulted when the witness instance can fail"""
        self.asserted = True
        from .core import SBool, Or, Not
        import z3

        if not self.symbolic:
            if isinstance(witness, SBool):
                raise RuntimeError("symbolic condition in concrete mode")
            if not witness and not full():
                raise PropertyFail(label)
            return
        w = witness.e if isinstance(witness, SBool) else witness
        if w is True:
            return
        if w is not False and self.sp._check(z3.Not(w)) == "unsat":
            self.sp.solver.add(w)
            return
        self.sp.check_assert(Or(witness, full()), label)

    def require(self, cond, label):
        """labelled assertion: must hold for every input on this path"""
        self.asserted = True
        if self.symbolic:
            self.sp.check_assert(cond, label)
        else:
            from .core import SBool

            if isinstance(cond, SBool):
                raise RuntimeError("symbolic condition in concrete mode")
            if not cond:
                raise PropertyFail(label)


def normalise(v):
    from .core import Seqlike, SSeq

    if v is None or isinstance(v, (bool, int, str, float)):
        return int(v) if (isinstance(v, int) and not isinstance(v, bool)) else v
    if isinstance(v, Seqlike):
        return normalise(v._d)
    if isinstance(v, (list, tuple)):
        return [normalise(x) for x in v]
    if isinstance(v, dict):
        return {str(k): normalise(x) for k, x in sorted(v.items(), key=lambda kv: str(kv[0]))}
    if isinstance(v, (set, frozenset)):
        return sorted(normalise(x) for x in v)
    if isinstance(v, SSeq):
        raise RuntimeError("symbolic value observed in concrete mode")
    tn = type(v).__name__
    if tn in ("Seq", "MutableSeq"):
        return str(v)
    if tn in ("SimpleLocation", "FeatureLocation"):
        from .models.bio import position_kind

        kinds = [position_kind(v.start), position_kind(v.end)]
        return ["loc", int(v.start), int(v.end), v.strand] + ([kinds] if kinds != ["exact", "exact"] else [])
    if tn == "CompoundLocation":
        return ["join", [normalise(p) for p in v.parts], v.operator]
    if tn == "SeqFeature":
        return ["feat", v.type, normalise(v.location), normalise(v.qualifiers), v.id]
    if tn in ("SeqRecord", "CircularRecord"):
        return ["rec", tn, normalise(v.seq), v.id, v.name, v.description, normalise(v.features),
                normalise(dict(v.annotations)), normalise(dict(v.letter_annotations)),
                normalise(v.dbxrefs)]
    if tn == "Reference":
        return ["ref", v.title, v.authors]
    if isinstance(v, BaseException):
        return ["exc", type(v).__name__]
    if isinstance(v, type):
        return ["type", v.__name__]
    return ["obj", tn]


class Hang(Exception):
    """a concrete run did not terminate within its time limit"""


class time_limit(object):
    """SIGALRM based limit for one concrete run / one whole worker (main thread only)"""

    def __init__(self, seconds, exc):
        self.seconds, self.exc = seconds, exc

    def __enter__(self):
        import signal

        def handler(signum, frame):
            raise self.exc("time limit of %ss exceeded" % self.seconds)

        self.old = signal.signal(signal.SIGALRM, handler)
        self.prev = signal.setitimer(signal.ITIMER_REAL, self.seconds)
        return self

    def __exit__(self, *a):
        import signal

        signal.setitimer(signal.ITIMER_REAL, 0)
        signal.signal(signal.SIGALRM, self.old)
        if self.prev and self.prev[0] > 0:
            signal.setitimer(signal.ITIMER_REAL, max(0.01, self.prev[0] - self.seconds))
        return False


CONCRETE_LIMIT_S = 20


def run_concrete(ob, stack, mk, shared=None):
    """-> dict(status='ok'|'fail'|'exc'|'ood', ok, exc, obs, inputs)"""
    ctx = Ctx(stack, mk, ob.params, shared=shared)
    try:
        with time_limit(CONCRETE_LIMIT_S, Hang):
            ok = ob.fn(ctx)
        from .core import SBool

        if isinstance(ok, SBool) or not isinstance(ok, (bool, int)):
            raise RuntimeError("harness returned a symbolic verdict in concrete mode: %r" % (ok,))
        return dict(status="ok" if ok else "fail", obs=ctx.obs, inputs=dict(mk.values))
    except OutOfDomain as e:
        return dict(status="ood", why=str(e), obs=ctx.obs, inputs=dict(mk.values))
    except PropertyFail as e:
        return dict(status="fail", label=str(e), obs=ctx.obs, inputs=dict(mk.values))
    except Exception as e:
        return dict(status="exc", exc=type(e).__name__, msg=str(e)[:300],
                    tb=traceback.format_exc(limit=12), obs=ctx.obs, inputs=dict(mk.values))


# ------------------------------------------------------------------------------------------------
# coverage of repository functions executed under the symbolic loader

_COV = {"funcs": {}, "on": False}


def _cov_start():
    from . import loader

    try:
        mon = sys.monitoring
    except AttributeError:
        return
    tool = 3
    root = loader.REPO.rstrip("/") + "/"
    try:
        mon.use_tool_id(tool, "symx-cov")
    except ValueError:
        pass

    def on_line(code, line):
        if code.co_filename.startswith(root):
            d = _COV["funcs"].setdefault((code.co_filename, code.co_qualname, code.co_firstlineno),
                                         [set(), code])
            d[0].add(line)
        return mon.DISABLE

    mon.register_callback(tool, mon.events.LINE, on_line)
    mon.set_events(tool, mon.events.LINE)
    _COV["on"] = True


def _cov_stop():
    if _COV["on"]:
        sys.monitoring.set_events(3, 0)
        _COV["on"] = False


def _cov_report():
    from . import loader

    out = {}
    for (fn, qn, first), (lines, code) in _COV["funcs"].items():
        if qn == "<module>":
            continue
        total = {l for (_, _, l) in code.co_lines() if l is not None and l != first}
        key = "%s:%s" % (os.path.relpath(fn, loader.REPO), qn)
        cur = out.get(key, [0, 0])
        out[key] = [max(cur[0], len(lines & total) if total else len(lines)), max(cur[1], len(total))]
    return out


# ------------------------------------------------------------------------------------------------


def _worker(args):
    """run one obligation end to end in a fresh process"""
    pid, tier, seed, ob_index, budget_s = args
    t0 = time.time()
    out = dict(index=ob_index, name=None, status="error", paths=0, aborted=0, queries=0, solver_s=0.0,
               nontrivial=0, asserted_paths=0, cex=[], validated=0, mismatches=[], witnesses=[],
               concrete_witnesses=[], unsupported=[], inconclusive=None, funcs={}, wall_s=0.0,
               samples=[], max_depth=0, fails_concrete=[])
    try:
        sys.setrecursionlimit(10000)
        from . import loader
        from .core import explore, Inconclusive
        import warnings

        warnings.filterwarnings("ignore")
        hm = importlib.import_module("harness." + pid.lower())
        ob = hm.obligations(tier, seed)[ob_index]
        out["name"] = ob.name
        out["group"] = ob.group
        out["params"] = {k: v for k, v in ob.params.items() if isinstance(v, (int, str, bool, float, list, tuple))}
        sym = loader.sym_stack()
        real = loader.real_stack()
        rng = random.Random((seed * 1000003 + ob_index * 7919) & 0xFFFFFFFF)
        shared = {}

        # 1. differential validation of the models on concrete inputs (both stacks)
        trials = 0
        want = ob.samples
        attempts = 0
        fixed = list(ob.fixed)
        while (fixed or trials < want) and attempts < want * 40 + len(ob.fixed) + 5:
            attempts += 1
            if fixed:
                vals = fixed.pop(0)
                mk_a, mk_b = FixedMk(vals), FixedMk(vals)
            else:
                mk_a = RandomMk(rng)
                ra = run_concrete(ob, sym, mk_a, shared)
                if ra["status"] == "ood":
                    continue
                mk_b = FixedMk(ra["inputs"])
                rb = run_concrete(ob, real, mk_b, shared)
                trials += 1
                _compare(out, ra, rb)
                continue
            ra = run_concrete(ob, sym, mk_a, shared)
            rb = run_concrete(ob, real, mk_b, shared)
            if ra["status"] == "ood" and rb["status"] == "ood":
                continue
            _compare(out, ra, rb)
        out["concrete_witnesses"] = sorted(shared.get("witness_concrete", ()))

        # 2. symbolic exploration
        timeout_ms = ob.timeout_ms or (30000 if tier == "quick" else 120000)
        deadline = t0 + (ob.budget_s or budget_s)
        cexs = []

        def harness(sp):
            mk = SymMk(sp)
            ctx = Ctx(sym, mk, ob.params, space=sp, shared=shared)
            sp.notes["ctx"] = ctx
            ok = ob.fn(ctx)
            return ok

        def on_path(res):
            ctx = res.space.notes.get("ctx")
            if ctx is not None and ctx.asserted and res.kind in ("ok", "cex"):
                out["asserted_paths"] += 1
            if res.kind in ("cex", "exception", "unsupported"):
                inputs = ctx.mk.concretize(res.model) if ctx is not None else {}
                kind = res.kind
                if kind == "exception" and _proxy_leak(res.exc):
                    # a proxy reached library code that has no model (e.g. CPython's re on a symbolic text): the path
                    # is outside what the models cover, not a property violation; it is replayed concretely instead
                    kind = "unsupported"
                rec = dict(kind=kind, label=res.label, inputs=inputs, decisions=len(res.decisions))
                if res.exc is not None:
                    rec["exc"] = type(res.exc).__name__
                    rec["msg"] = str(res.exc)[:300]
                    if res.kind == "exception":
                        rec["tb"] = "".join(traceback.format_exception(type(res.exc), res.exc, res.exc.__traceback__, limit=-8))[-1500:]
                if kind == "unsupported":
                    if sum(1 for c in cexs if c["kind"] == "unsupported") < 24:
                        cexs.append(rec)
                    return False
                cexs.append(rec)
                return sum(1 for c in cexs if c["kind"] != "unsupported") >= 3
            if res.kind == "ok" and len(out["samples"]) < 2 and ctx is not None and res.decisions:
                try:
                    smp = dict(path_decisions=len(res.decisions),
                               witness_inputs=ctx.mk.concretize(res.space.get_model()))
                    la = res.space.notes.get("last_assert")
                    if la is not None:
                        smp["last_discharged_assertion"] = dict(label=la[0], negation_unsat=True,
                                                                smtlib=la[1].sexpr()[:700])
                    out["samples"].append(smp)
                except BaseException:
                    pass
            return False

        from .core import Space as _Space

        _Space.capture = dict(queries=[], limit=(3 if tier == "thorough" else 1), every=7, seen=0)
        _cov_start()
        try:
            try:
                st = {}
                with time_limit(max(1.0, deadline - time.time() + 5.0), Inconclusive):
                    explore(harness, on_path, timeout_ms=timeout_ms, max_paths=ob.max_paths,
                            deadline=deadline, seed=seed, stats=st)
                if st["truncated"]:
                    out["inconclusive"] = "path limit reached"
            except Inconclusive as inc:
                out["inconclusive"] = str(inc)
        finally:
            _cov_stop()
        if st:
            for k in ("paths", "aborted", "queries", "nontrivial", "max_depth"):
                out[k] = st.get(k, 0)
            out["solver_s"] = round(st.get("solver_s", 0.0), 3)
        out["witnesses"] = sorted(shared.get("witness", ()))
        out["funcs"] = _cov_report()
        out["cross"] = _cross_solver(_Space.capture["queries"])
        _Space.capture = None

        # 3. replay every counterexample on the real stack
        for rec in cexs:
            rr = run_concrete(ob, real, FixedMk(rec["inputs"]))
            rec["replay"] = dict(status=rr["status"], exc=rr.get("exc"), msg=rr.get("msg"), tb=rr.get("tb"),
                                 label=rr.get("label"))
            if rec["kind"] == "unsupported":
                out["unsupported"].append(rec)
                if rr["status"] in ("fail", "exc"):
                    rec["confirmed"] = True
                    out["cex"].append(rec)
            else:
                rec["confirmed"] = rr["status"] in ("fail", "exc")
                out["cex"].append(rec)
        missing = [w for w in ob.expect_witness if w not in out["witnesses"]]
        out["missing_witnesses"] = missing
        out["status"] = "done"
    except BaseException as e:
        out["status"] = "error"
        out["error"] = "%s: %s" % (type(e).__name__, e)
        out["tb"] = traceback.format_exc(limit=20)
    out["wall_s"] = round(time.time() - t0, 2)
    return out


_PROXY_NAMES = ("SSeq", "SInt", "SBool", "SLetter", "EnzymeWrap", "FragmentTuple", "SymMatch", "SymPattern", "CompSiteWrap")


def _proxy_leak(exc):
    """the exception comes from code outside /repo and the harness being handed a proxy object"""
    if not isinstance(exc, (TypeError, AttributeError, ValueError)):
        return False
    msg = str(exc)
    if not any(("'%s'" % n) in msg or (" %s " % n) in msg or msg.endswith(n) for n in _PROXY_NAMES):
        return False
    tb = exc.__traceback__
    last = None
    while tb is not None:
        last = tb
        tb = tb.tb_next
    fn = last.tb_frame.f_code.co_filename if last is not None else ""
    from . import loader

    # raised while executing library code directly called from the repository (the raising frame is the repository's:
    # C functions have no frame) or inside a library frame
    return True if fn.startswith(loader.REPO) or "/site-packages/" in fn or "/lib/python" in fn else False


def _cross_solver(queries, limit_ms=15000):
    """re-decide exported (path condition AND NOT assertion) queries, which z3 found unsat, with cvc5"""
    res = dict(queries=0, agree=0, unknown=0, disagree=[])
    if not queries:
        return res
    try:
        import cvc5
    except Exception:
        res["unavailable"] = True
        return res
    for label, txt in queries:
        try:
            tm = cvc5.TermManager() if hasattr(cvc5, "TermManager") else None
            slv = cvc5.Solver(tm) if tm else cvc5.Solver()
            slv.setOption("tlimit-per", str(limit_ms))
            slv.setLogic("ALL")
            ip = cvc5.InputParser(slv)
            ip.setStringInput(cvc5.InputLanguage.SMT_LIB_2_6, txt, "q")
            sm = ip.getSymbolManager()
            answer = ""
            while True:
                cmd = ip.nextCommand()
                if cmd.isNull():
                    break
                o = cmd.invoke(slv, sm).strip()
                if o:
                    answer = o
            res["queries"] += 1
            if answer == "unsat":
                res["agree"] += 1
            elif answer == "sat":
                res["disagree"].append(label)
            else:
                res["unknown"] += 1
        except Exception as e:  # parser/solver limitation: counted as unknown, never as agreement
            res["queries"] += 1
            res["unknown"] += 1
            res.setdefault("errors", []).append("%s: %s" % (type(e).__name__, str(e)[:120]))
    return res


def _compare(out, ra, rb):
    out["validated"] += 1
    same = (ra["status"] == rb["status"] and ra.get("exc") == rb.get("exc") and ra["obs"] == rb["obs"])
    if not same:
        if len(out["mismatches"]) < 3:
            out["mismatches"].append(dict(inputs=_jsonable(ra["inputs"]), sym=_brief(ra), real=_brief(rb)))
    if rb["status"] in ("fail", "exc") and len(out["fails_concrete"]) < 3:
        out["fails_concrete"].append(dict(inputs=_jsonable(rb["inputs"]), status=rb["status"],
                                          exc=rb.get("exc"), msg=rb.get("msg"), tb=rb.get("tb"),
                                          label=rb.get("label")))


def _brief(r):
    return dict(status=r["status"], exc=r.get("exc"), msg=r.get("msg"), obs=r["obs"][:12], tb=r.get("tb"),
                label=r.get("label"))


def _jsonable(x):
    try:
        json.dumps(x)
        return x
    except TypeError:
        return json.loads(json.dumps(x, default=str))


# ------------------------------------------------------------------------------------------------


def load_known(pid):
    p = os.path.join(VERIF, "known_findings.json")
    if not os.path.exists(p):
        return []
    with open(p) as fh:
        data = json.load(fh)
    return [k for k in data.get("known", []) if k.get("property") == pid]


def main(argv=None):
    import argparse

    ap = argparse.ArgumentParser()
    ap.add_argument("pid")
    ap.add_argument("--tier", default=os.environ.get("VERIF_TIER", "quick"))
    ap.add_argument("--replay")
    ap.add_argument("--jobs", type=int, default=int(os.environ.get("VERIF_JOBS", "0")) or (os.cpu_count() or 4))
    ap.add_argument("--only", help="substring filter on obligation names (debugging)")
    ap.add_argument("--list", action="store_true")
    ap.add_argument("--no-evidence", action="store_true")
    a = ap.parse_args(argv)
    pid = a.pid.upper()
    tier = a.tier if a.tier in ("quick", "thorough") else "quick"
    try:
        seed = int(os.environ.get("VERIF_SEED", "0"))
    except ValueError:
        seed = 0
    sys.path.insert(0, VERIF)
    t0 = time.time()
    hm = importlib.import_module("harness." + pid.lower())

    if a.replay:
        return replay_main(pid, hm, a.replay)

    obs = hm.obligations(tier, seed)
    if a.list:
        for i, ob in enumerate(obs):
            print(i, ob.name)
        return 0
    idx = [i for i, ob in enumerate(obs) if not a.only or a.only in ob.name]
    budget = getattr(hm, "BUDGET_S", {}).get(tier, 420 if tier == "quick" else 3000)
    # most expensive first
    idx.sort(key=lambda i: -obs[i].cost)
    jobs = max(1, min(a.jobs, len(idx)))
    ctx = multiprocessing.get_context("fork")
    results = []
    print("[%s] tier=%s seed=%d obligations=%d jobs=%d repo=%s" % (pid, tier, seed, len(idx), jobs,
                                                                   os.environ.get("MOCLO_REPO", "/repo")), flush=True)
    # differential validation of the library models, in a child process (keeps the parent free of z3 state)
    with ctx.Pool(1) as vp_:
        try:
            validation = vp_.apply(_validate, (seed, getattr(hm, "VALIDATE", ("re", "catalyse", "records"))))
        except Exception as e:
            validation = dict(report={}, bad=[dict(error="%s: %s" % (type(e).__name__, e))])
    print("  model validation: %s" % json.dumps(validation["report"]), flush=True)
    with ctx.Pool(jobs, maxtasksperchild=1) as pool:
        for r in pool.imap_unordered(_worker, [(pid, tier, seed, i, budget) for i in idx]):
            results.append(r)
            tag = r["status"]
            if r.get("inconclusive"):
                tag = "INCONCLUSIVE(%s)" % r["inconclusive"][:60]
            elif r["cex"]:
                tag = "CEX x%d" % len(r["cex"])
            print("  - %-58s %-14s paths=%-5d q=%-6d solver=%.1fs wall=%.1fs" % (
                (r.get("name") or "?")[:58], tag, r["paths"], r["queries"], r["solver_s"], r["wall_s"]), flush=True)
    results.sort(key=lambda r: r["index"])
    return finish(pid, tier, seed, hm, obs, results, time.time() - t0, write=not a.no_evidence, validation=validation)


def _validate(seed, which):
    import warnings

    warnings.filterwarnings("ignore")
    from . import validate

    shapes = ()
    try:
        from harness.c16 import SHAPES as shapes
    except Exception:
        pass
    report, bad = validate.run_all(seed, which=which, shapes=shapes)
    return dict(report=report, bad=bad[:4])


def finish(pid, tier, seed, hm, obs, results, wall, write=True, validation=None):
    known = load_known(pid)
    harness_errors = []
    for b in (validation or {}).get("bad", []):
        harness_errors.append("library model disagrees with the real library: %s" % json.dumps(b, default=str)[:800])
    violations = []
    known_hits = {}
    inconclusive = []
    discharged = 0
    for r in results:
        if r["status"] != "done":
            harness_errors.append("%s: %s\n%s" % (r.get("name"), r.get("error"), r.get("tb", "")))
            continue
        if r["mismatches"]:
            harness_errors.append("model/real mismatch in %s: %s" % (r["name"], json.dumps(r["mismatches"][0], default=str)[:1500]))
        for f in r["fails_concrete"]:
            # a random concrete sample already violates the property on the real stack
            violations.append((r, dict(kind="concrete-sample", label="differential sample", inputs=f["inputs"],
                                       replay=dict(status=f["status"], exc=f.get("exc"), msg=f.get("msg"), tb=f.get("tb"),
                                                   label=f.get("label")), confirmed=True)))
        bad = False
        for c in r["cex"]:
            if c.get("confirmed"):
                violations.append((r, c))
                bad = True
            else:
                harness_errors.append("counterexample of %s does not reproduce on the real stack: %s" % (
                    r["name"], json.dumps(c, default=str)[:1500]))
                bad = True
        if r.get("inconclusive"):
            inconclusive.append("%s: %s" % (r["name"], r["inconclusive"]))
            bad = True
        if r["unsupported"] and not bad:
            inconclusive.append("%s: unsupported operation on a path (%s)" % (r["name"], r["unsupported"][0].get("msg")))
            bad = True
        if (r.get("cross") or {}).get("disagree"):
            harness_errors.append("cvc5 finds a model for an assertion z3 discharged in %s: %s" % (r["name"], r["cross"]["disagree"]))
        if r.get("missing_witnesses") and not bad:
            harness_errors.append("coverage witness never reached in %s: %s" % (r["name"], r["missing_witnesses"]))
        if r["asserted_paths"] == 0 and not bad:
            harness_errors.append("vacuous obligation (no path reaches its assertion): %s" % r["name"])
            bad = True
        if not bad:
            discharged += 1

    # known findings filter
    classify = getattr(hm, "classify", None)
    new_violations = []
    for r, c in violations:
        key = classify(r, c) if classify else None
        hit = None
        for k in known:
            if key is not None and k.get("key") == key:
                hit = k
        if hit is not None:
            known_hits.setdefault(hit["key"], (hit, r, c))
        else:
            new_violations.append((r, c, key))

    rdir = os.path.join(VERIF, "replays", pid)
    os.makedirs(rdir, exist_ok=True)
    for old in os.listdir(rdir):
        if old.endswith(".json"):
            os.remove(os.path.join(rdir, old))
    lines = []
    seen_shapes = set()
    kept = []
    for (r, c, key) in new_violations:
        shape = (r.get("group"), c.get("label"), (c.get("replay") or {}).get("label"), (c.get("replay") or {}).get("exc"))
        if shape in seen_shapes or len(kept) >= 12:
            continue
        seen_shapes.add(shape)
        kept.append((r, c, key))
    suppressed = len(new_violations) - len(kept)
    new_violations = kept
    if suppressed:
        print("(%d further counterexamples of the same shapes not written out)" % suppressed)
    for n, (r, c, key) in enumerate(new_violations):
        path = os.path.join("replays", pid, "%d.json" % n)
        with open(os.path.join(VERIF, path), "w") as fh:
            json.dump(dict(property=pid, obligation=r["name"], index=r["index"], tier=tier, seed=seed,
                           inputs=c["inputs"], kind=c["kind"], label=c.get("label"), key=key,
                           replay=c.get("replay")), fh, indent=1, default=str)
        lines.append("VIOLATION property=%s replay=%s" % (pid, path))
    for key, (hit, r, c) in known_hits.items():
        print("KNOWN-FINDING: property=%s %s" % (pid, hit.get("what", key)))

    if write:
        write_evidence(pid, tier, seed, hm, obs, results, wall, discharged, inconclusive,
                       harness_errors, new_violations, known_hits, validation)
    for m in inconclusive:
        print("INCONCLUSIVE: %s" % m)
    for m in harness_errors:
        print("HARNESS-ERROR: %s" % m)
    for l in lines:
        print(l)
    total = len(results)
    print("[%s] obligations=%d discharged=%d violations=%d known=%d inconclusive=%d harness_errors=%d wall=%.1fs" % (
        pid, total, discharged, len(new_violations), len(known_hits), len(inconclusive), len(harness_errors), wall), flush=True)
    if new_violations:
        return EXIT_VIOLATION
    if harness_errors:
        return EXIT_HARNESS
    return EXIT_OK


def write_evidence(pid, tier, seed, hm, obs, results, wall, discharged, inconclusive, harness_errors,
                   new_violations, known_hits, validation=None):
    funcs = {}
    for r in results:
        for k, (hit, tot) in r.get("funcs", {}).items():
            cur = funcs.get(k, [0, 0])
            funcs[k] = [max(cur[0], hit), max(cur[1], tot)]
    samples = []
    for r in sorted(results, key=lambda r: -r.get("paths", 0)):
        for s in r.get("samples", [])[:1]:
            samples.append(dict(obligation=r["name"], **s))
        if len(samples) >= 6:
            break
    if not samples:
        samples = [dict(obligation=r.get("name"), params=r.get("params")) for r in results[:3]]
    paths = sum(r["paths"] for r in results)
    nontrivial = sum(r["nontrivial"] for r in results)
    cov = dict(
        explanation=getattr(hm, "EXPLANATION", "") or (
            "bounded symbolic execution of /repo's own source (symx) with z3 deciding every branch and the final assertion"),
        obligations=len(results),
        discharged=discharged,
        inconclusive=inconclusive,
        evaluations=max(paths, 1),
        distinct_nontrivial=nontrivial,
        rule=("one evaluation = one feasible execution path of the harness through the repository code, enumerated "
              "depth-first by solver-decided branching; a path is non-trivial when at least one branch or assertion on it "
              "needed the solver (paths are distinct by their decision prefix)"),
        samples=samples,
        paths=paths,
        aborted_paths=sum(r["aborted"] for r in results),
        solver_queries=sum(r["queries"] for r in results),
        solver_s=round(sum(r["solver_s"] for r in results), 2),
        vacuity_twin="assert(False) twin violated on %d paths across %d obligations" % (
            sum(r["asserted_paths"] for r in results), sum(1 for r in results if r["asserted_paths"] > 0)),
        witnesses=sorted({w for r in results for w in r.get("witnesses", [])}),
        concrete_witnesses=sorted({w for r in results for w in r.get("concrete_witnesses", [])}),
        traces_validated_against_impl=sum(r["validated"] for r in results) + sum(
            v.get("cases", 0) for v in ((validation or {}).get("report") or {}).values()),
        model_validation=(validation or {}).get("report"),
        cross_solver=dict(solver="cvc5", queries=sum((r.get("cross") or {}).get("queries", 0) for r in results),
                          agree=sum((r.get("cross") or {}).get("agree", 0) for r in results),
                          unknown=sum((r.get("cross") or {}).get("unknown", 0) for r in results),
                          disagree=sum(len((r.get("cross") or {}).get("disagree", [])) for r in results)),
        functions_encoded={k: "%d/%d lines" % (v[0], v[1]) for k, v in sorted(funcs.items())},
        bounds=getattr(hm, "bounds", lambda t: {})(tier),
        per_obligation=[dict(name=r.get("name"), status=r["status"], paths=r["paths"], queries=r["queries"],
                             solver_s=r["solver_s"], wall_s=r["wall_s"], inconclusive=r.get("inconclusive"),
                             cex=len(r["cex"])) for r in results],
        checker_cmd="./check %s --tier %s" % (pid, tier),
        trusted_base=["z3 %s" % _z3v(), "CPython %s" % sys.version.split()[0],
                      "symx library models (Bio.Seq/SeqRecord/SeqFeature, re, Bio.Restriction.catalyse) validated "
                      "differentially against the real libraries on every run", "Biopython %s" % _biov()],
        harness_errors=harness_errors,
        known_findings=[k for k in known_hits],
        exhaustive=False,
    )
    ev = dict(property_id=pid, tier=tier, seed=seed, level="other", coverage=cov,
              assumptions=list(getattr(hm, "ASSUMPTIONS", [])), wall_s=round(wall, 2),
              violations=len(new_violations))
    os.makedirs(os.path.join(VERIF, "evidence"), exist_ok=True)
    with open(os.path.join(VERIF, "evidence", "%s.json" % pid), "w") as fh:
        json.dump(ev, fh, indent=1, default=str)


def _z3v():
    import z3

    return z3.get_version_string()


def _biov():
    import Bio

    return Bio.__version__


def replay_main(pid, hm, path):
    from . import loader

    with open(path if os.path.isabs(path) else os.path.join(VERIF, path)) as fh:
        rec = json.load(fh)
    tier, seed = rec.get("tier", "quick"), rec.get("seed", 0)
    obs = hm.obligations(tier, seed)
    ob = None
    for o in obs:
        if o.name == rec["obligation"]:
            ob = o
    if ob is None:
        print("HARNESS-ERROR: obligation %r not found" % rec["obligation"])
        return EXIT_HARNESS
    rr = run_concrete(ob, loader.real_stack(), FixedMk(rec["inputs"]))
    print(json.dumps(dict(status=rr["status"], label=rr.get("label"), exc=rr.get("exc"), msg=rr.get("msg"), obs=rr["obs"][:20]), default=str, indent=1))
    if rr.get("tb"):
        print(rr["tb"])
    if rr["status"] in ("fail", "exc"):
        print("VIOLATION property=%s replay=%s" % (pid, path))
        return EXIT_VIOLATION
    print("replay: property holds on this input")
    return EXIT_OK


if __name__ == "__main__":
    sys.exit(main())
