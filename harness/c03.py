# C03 - ambiguous or incomplete module sets never produce a plasmid.
# Code executed symbolically: AbstractVector.assemble, AssemblyManager.__init__/assemble/
# _generate_modules_map/_generate_assembly/_annotate_assembly/_deref_citations/_ref_citations
# (moclo/moclo/core/_assembly.py, vectors.py), errors.py, _utils.catch_warnings.
from .common import *
from .wblock import *

ID = "C03"
LEVEL_TEXT = ("Bounded verification by symbolic execution of the real assembly code on stub modules whose start/end overhangs "
              "are fully symbolic words (so every overhang graph with equal, reverse-complementary and palindromic overhangs, "
              "every multiset and every argument order up to m modules is covered by one query family): on every feasible path "
              "the outcome class, exception attributes, product sequence and UnusedModules payload equal those of a 20-line "
              "reference walk, and a rotated/reversed argument list gives the same outcome.  Bounded claim.")
LEVEL_NOTE = ("Bounds: m<=4 modules quick / m<=5 thorough; overhang length 2 (and 4 in thorough, 1 and 3 for m<=3); also over mixed-case letters and with all records sharing one id; fragments are "
              "concrete marker words prefixed by the symbolic overhang. That the real module/vector classes deliver such "
              "overhang/fragment values from records is C04's conclusion. A palindromic start overhang counts as 'reverse-"
              "complements a start overhang' (the reading under which the code is right). Trusted: z3, CPython, symx models.")
LEVEL_NOTE_EXTRA = 'Also: the overhang graph also run through a real generic vector typed from its plasmid at every origin.'
TECHNIQUE = "bounded symbolic execution of the real Python source (symx) with z3 over symbolic overhang graphs; reference-walk oracle; replay on the real stack"
EXPLANATION = ("symbolic execution of AssemblyManager on stub modules with symbolic overhangs: dict lookups keyed by symbolic Seq "
               "values become solver-decided equality tests; outcomes are compared with a reference walk on every path")
ASSUMPTIONS = [
    "modules/vector are stubs (subclasses of the real AbstractModule/AbstractVector overriding overhang_start/overhang_end/"
    "target_sequence) - the walk reads nothing else",
    "overhang letters over ACGT, all modules' overhangs have the cutter's overhang length",
    "DuplicateModules.duplicates must name supplied modules among which two conflict; UnusedModules.remaining is compared as a set",
]

MARK = ["AAAC", "CCG", "GT", "TGCAT", "ACA", "GG"]


def bounds(tier):
    return dict(modules_max=tier_pick(tier, 4, 5), overhang_lengths=tier_pick(tier, [2], [1, 2, 3, 4]))


def ob_graph(ctx):
    st = ctx.stack
    P = ctx.P
    m, k = P["m"], P["k"]
    Mod, Vec = stub_classes(st)
    alpha = P.get("alphabet", "ACGT")
    up = ctx.mk.seq("up", k, alpha)
    down = ctx.mk.seq("down", k, alpha)
    starts = [ctx.mk.seq("s%d" % i, k, alpha) for i in range(m)]
    ends = [ctx.mk.seq("e%d" % i, k, alpha) for i in range(m)]

    def ucodes(x, k):
        # overhangs are compared without regard to letter case (C18): the reference walk works on upper-case codes
        h = getattr(sdata(x), "hint", None)
        return [supper_code(c, h) for c in codes(x, k)]

    def rec(i, data):
        if P.get("same_ids"):
            # record ids are not part of the overhang graph: every input carries Biopython's default id
            return st.record.CircularRecord(st.Seq(data))
        return st.record.CircularRecord(st.Seq(data), id="m%d" % i if i >= 0 else "vec")

    mods = [Mod(rec(i, "ACGT"), st.Seq(starts[i]), st.Seq(ends[i]),
                (lambda i=i: st.SeqRecord(st.Seq(starts[i] + MARK[i]), id="<unknown id>" if P.get("same_ids") else "m%d" % i))) for i in range(m)]
    if P.get("real_vector"):
        # the vector is a real generic vector typed from its plasmid (filed at any origin): its two overhangs are read by
        # the real structure match; the graph is still what decides the outcome
        from .c01 import cat, rot, only_sites
        from .rblock import Geometry, generic_class

        g = Geometry(st.enzyme(P["real_vector"]))
        off = g.lo - g.L
        vd = cat(up, "TTTT", down, ctx.mk.seq("vy", off, "ACGT"), g.rsite, ctx.mk.seq("vp", 2, "ACGT"), g.site,
                 ctx.mk.seq("vx", off, "ACGT"))
        rpos = k + 4 + k + off
        only_sites(ctx, vd, slen(vd), g, {("r", rpos), ("f", rpos + g.L + 2)})
        vd = rot(vd, P["lo"] + ctx.mk.pick("rho", P["hi"] - P["lo"]))
        vec = generic_class(st, "vector", P["real_vector"])(st.record.CircularRecord(st.Seq(vd), id="vec"))
    else:
        vec = Vec(rec(-1, "ACGT"), st.Seq(up), st.Seq(down), lambda: st.SeqRecord(st.Seq(up + "TTTT"), id="vec"))
    out = run_assemble(st, vec, mods)
    ctx.observe("kind", out["kind"])
    ref = reference_walk(ucodes(up, k), ucodes(down, k), [ucodes(s, k) for s in starts], [ucodes(e, k) for e in ends], k)
    ctx.witness(ref[0])
    ctx.require(out["kind"] == ref[0], "outcome-class:%s-vs-%s" % (out["kind"], ref[0]))
    if ref[0] == "DuplicateModules":
        d = list(out["exc"].duplicates)
        ctx.require(len(d) >= 1 and all(x in mods for x in d), "duplicates-payload")
        idx = [mods.index(x) for x in d]
        ctx.require(any((min(i, j), max(i, j)) in ref[1] for i in idx for j in idx), "duplicates-do-not-contain-a-conflicting-pair")
        ctx.require(not out["unused"], "warning-with-error")
        ctx.witness("palindromic-start", any(a == b for a, b in ref[1]))
        ctx.witness("reverse-complement-pair", any(a != b for a, b in ref[1]))
    elif ref[0] == "MissingModule":
        so = out["exc"].start_overhang
        ctx.require(codes_eq(ucodes(so, k), ref[1]) and Eq(slen(so), k), "stalled-overhang")
        ctx.witness("missing-after-some-consumed", len(ref[2]) > 0)
    elif ref[0] == "product":
        chain = ref[1]
        prod = out["product"]
        ctx.require(isinstance(prod, st.record.CircularRecord), "product-type")
        want = []
        for i in chain:
            want += codes(starts[i], k) + [code_of(c) for c in MARK[i]]
        want += codes(up, k) + [code_of(c) for c in "TTTT"]
        d = sdata(prod.seq)
        ctx.observe("product", d)
        ctx.require(Eq(slen(d), len(want)), "product-length")
        ctx.require(And([Eq(sat(d, j), want[j]) for j in range(len(want))]), "product-sequence")
        left = [mods[i] for i in range(m) if i not in chain]
        if left:
            ctx.require(len(out["unused"]) == 1, "unused-warning-missing")
            rem = out["unused"][0].remaining
            ctx.require(len(rem) == len(left) and all(x in left for x in rem) and all(x in rem for x in left),
                        "unused-payload")
            ctx.witness("product+warning")
        else:
            ctx.require(not out["unused"], "spurious-unused-warning")
        ctx.witness("chain-length-%d" % len(chain))
    else:
        ctx.require(not out["unused"], "warning-with-error")
    # order independence: another argument order gives the same outcome
    if m >= 2:
        perm = list(range(1, m)) + [0] if P["perm"] == "rot" else list(range(m - 1, -1, -1))
        out2 = run_assemble(st, vec, [mods[i] for i in perm])
        ctx.require(out2["kind"] == out["kind"], "order-dependent-outcome")
        if out["kind"] == "product":
            ctx.require(seq_eq(out2["product"].seq, out["product"].seq), "order-dependent-product")
            r1 = out["unused"][0].remaining if out["unused"] else ()
            r2 = out2["unused"][0].remaining if out2["unused"] else ()
            ctx.require(len(r1) == len(r2) and all(x in r2 for x in r1), "order-dependent-unused")
        elif out["kind"] == "MissingModule":
            ctx.require(seq_eq(out2["exc"].start_overhang, out["exc"].start_overhang), "order-dependent-stall")
    return True


def obligations(tier, seed):
    obs = []
    from Bio import Restriction
    from .rblock import Geometry

    for e in tier_pick(tier, ["BsaI"], ["BsaI", "SapI"]):
        g = Geometry(getattr(Restriction, e))
        nv = g.ovl + 4 + g.ovl + (g.lo - g.L) + g.L + 2 + g.L + (g.lo - g.L)
        chunks = 4
        step = (nv + chunks - 1) // chunks
        for lo in range(0, nv, step):
            hi = min(nv, lo + step)
            obs.append(Ob("overhang graph m=1 with a real %s vector filed at origin %d..%d" % (e, lo, hi - 1), ob_graph,
                          dict(m=1, k=g.ovl, perm="rot", real_vector=e, lo=lo, hi=hi), samples=6, cost=nv * (hi - lo) * 20,
                          group="real vector %s" % e))
    combos = [(1, 2), (2, 2), (3, 2), (4, 2)] if tier == "quick" else \
        [(1, 1), (2, 1), (3, 1), (1, 2), (2, 2), (3, 2), (4, 2), (5, 2), (1, 3), (2, 3), (3, 3), (1, 4), (2, 4), (3, 4), (4, 4)]
    for m, k in combos:
        for perm in ("rot", "rev"):
            if m < 3 and perm == "rev":
                continue
            exp = ["InvalidSequence"]
            if m >= 2 or k % 2 == 0:
                exp.append("DuplicateModules")  # one module alone conflicts only with itself: needs a palindromic overhang
            if k >= 2 or m <= 2:
                exp += ["MissingModule", "product"]  # 1-nt overhangs: at most two conflict-free start overhangs exist
            obs.append(Ob("overhang graph m=%d overhang=%dnt order=%s" % (m, k, perm), ob_graph,
                          dict(m=m, k=k, perm=perm), samples=12, cost=6 ** m * k, expect_witness=exp))
            if perm == "rot" and k == 2 and 2 <= m <= tier_pick(tier, 3, 4):
                obs.append(Ob("overhang graph m=%d overhang=%dnt all records share one id" % (m, k), ob_graph,
                              dict(m=m, k=k, perm=perm, same_ids=True), samples=12, cost=6 ** m * k, expect_witness=exp))
            if perm == "rot" and k == 2 and m <= tier_pick(tier, 2, 3):
                obs.append(Ob("overhang graph m=%d overhang=%dnt mixed-case letters" % (m, k), ob_graph,
                              dict(m=m, k=k, perm=perm, alphabet="ACGTacgt"), samples=12, cost=12 ** m * k, expect_witness=exp))
    return obs
