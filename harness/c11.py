# C11 - products of one level are valid modules of the next level.
# Code executed symbolically: block R on the kit's vector class (hand-written structure literal),
# the real assemble() with inserts, then block R on the kit's next-level module class applied to
# the product, and a next-level assembly of it.
from .common import *
from .rblock import *
from .wblock import *
from .c02 import unique_at_zero
from .c01 import cat

ID = "C11"
LEVEL_TEXT = ("Bounded verification by symbolic execution of the real code across two levels: a fully symbolic plasmid that "
              "instantiates the kit's vector structure (literal read from /repo at run time) is typed by the real vector class, "
              "assembled with 1-2 symbolic inserts of >= 2 nt whose overhangs chain by construction, and the product (symbolic "
              "letters) is typed by the kit's next-level module class: z3 shows it is accepted whenever it carries exactly the "
              "two next-level sites of the design, that the next-level target contains every insert target in chain order, and "
              "that a next-level assembly of it succeeds.  Bounded claim.")
LEVEL_NOTE = ("Bounds: vector length n = F_V+1, 1-2 inserts with 2-3 nt bodies; triples: CIDAR entry/cassette/device vectors, "
              "EcoFlex cassette/device vectors, MoClo entry/cassette vectors, YTK entry vector with a YTK-product-shaped insert "
              "(quick: 4 triples, thorough: all 8). Inserts are stub modules (overhangs + fragment); that real module classes "
              "deliver such values is C04. Trusted: z3, CPython, symx models.")
LEVEL_NOTE_EXTRA = 'Also: a namesake of the product typed before (generic and typed-part next level); the product renumbered into the upstream next-level site/spacer; five triples in the quick tier.'
TECHNIQUE = "bounded symbolic execution of the real Python source (symx) with z3 across two assembly levels; replay on the real stack"
EXPLANATION = "vector literal -> assemble -> next-level class on the symbolic product; the relation between the hand-written literals is decided for all inserts in the bound"
ASSUMPTIONS = [
    "the vector is an instance of its class's structure (unique occurrence, canonical position; rotations: C02)",
    "the product carries exactly two next-level recognition sites (both strands counted); the site word is read from the "
    "vector's structure literal (YTK: from the next-level class's cutter)",
    "inserts >= 2 nt; overhangs chain by construction; cohesive ends pairwise distinct and not reverse-complementary",
]

TRIPLES = [
    ("cidar", "CIDAREntryVector", "CIDAREntry", "plain"),
    ("ytk", "YTKEntryVector", "YTKEntry", "ytkproduct"),
    ("ecoflex", "EcoFlexCassetteVector", "EcoFlexCassette", "plain"),
    ("moclo", "MoCloCassetteVector", "MoCloCassette", "plain"),
    ("cidar", "CIDARCassetteVector", "CIDARCassette", "plain"),
    ("cidar", "CIDARDeviceVector", "CIDARDevice", "plain"),
    ("ecoflex", "EcoFlexDeviceVector", "EcoFlexDevice", "plain"),
    ("moclo", "MoCloEntryVector", "MoCloEntry", "plain"),
]


def bounds(tier):
    return dict(triples=tier_pick(tier, 5, 8), inserts_max=2, slack=1)


def ob_level(ctx):
    st = ctx.stack
    P = ctx.P
    V = kit_class(st, P["kit"], P["vector"])
    NL = kit_class(st, P["kit"], P["next"])
    gV, gN = Geometry(V.cutter), Geometry(NL.cutter)
    n = P["n"]
    c = P["inserts"]
    mk = ctx.mk
    r = mk.seq("v", n, "ACGT")
    unique_at_zero(ctx, V.structure(), r, n)
    vdata = r
    if P.get("rotate") == "vector":
        from .c01 import rot

        vdata = rot(r, P["lo"] + mk.pick("rho", P["hi"] - P["lo"]))  # the vector plasmid as filed at another origin
    vec = V(st.record.CircularRecord(st.Seq(vdata), id="vec"))
    if not vec.is_valid():
        ctx.witness("vector-rejected")
        return True
    down, up = vec.overhang_end(), vec.overhang_start()
    k = gV.ovl
    Mod, _ = stub_classes(st, str(getattr(V.cutter, "real", V.cutter)))
    o = [sdata(down)] + [mk.seq("o%d" % i, k, "ACGT") for i in range(1, c)] + [sdata(up)]
    cs = []
    for i in range(c + 1):
        for j in range(i + 1, c + 1):
            cs.append(Not(seq_eq(o[i], o[j])))
    for i in range(c):
        for j in range(i, c):
            rc = rc_codes(o[j])
            cs.append(Not(And([Eq(sat(o[i], q), rc[q]) for q in range(k)])))
    ctx.assume(And(cs))
    bodies, payload = [], []
    for i in range(c):
        b = mk.seq("t%d" % i, 2 + i, "ACGT")
        if P["kind"] == "ytkproduct":
            # a YTK product's target: TCTC N <type overhang> template <type overhang> N GA, flanked by xxGG / GACC.
            # The half sites TCTC / GA are consumed by design when the entry is cut with BsaI, so "the insert" whose
            # survival is checked is the type-specific overhang + template
            ya = mk.seq("ya%d" % i, 5, "ACGT")
            payload.append(cat(ya[1:], b))
            b = cat("TCTC", ya, b, mk.seq("yb%d" % i, 5, "ACGT"), "GA")
        bodies.append(b)
    if P["kind"] == "ytkproduct":
        ctx.assume(And(Eq(sat(o[0], 2), code_of("G")), Eq(sat(o[0], 3), code_of("G")), seq_eq(o[c], "GACC")))
    targets = [cat(o[i], bodies[i]) for i in range(c)]
    mods = [Mod(st.record.CircularRecord(st.Seq("ACGT"), id="ins%d" % i), st.Seq(o[i]), st.Seq(o[i + 1]),
                (lambda i=i: st.SeqRecord(st.Seq(targets[i]), id="ins%d" % i))) for i in range(c)]
    prod = vec.assemble(*mods, id="product", name="product")
    pd = sdata(prod.seq)
    N = slen(pd)
    ctx.observe("product", pd)
    from .rblock import _letters_at

    # "the two next-level sites the design provides" are the ones written in the vector's structure literal (its
    # leading run of fixed nucleotides); only where the literal has none (YTK: the sites come with the product) is the
    # next-level class's own cutter used
    import re as _re
    import Bio.Seq as _BS

    lead = _re.match(r"[ACGT]{4,}", V.structure())
    dsite = lead.group(0) if lead else gN.site
    drsite = str(_BS.Seq(dsite).reverse_complement())
    occ = [_letters_at(pd, N, p, dsite) for p in range(N)] + [_letters_at(pd, N, p, drsite) for p in range(N)]
    ctx.assume(Eq(Count(occ), 2))
    if P.get("rotate") == "product":
        # the same product plasmid, renumbered from another origin before it is handed to the next level
        prod = prod >> (P["lo"] + mk.pick("rho", P["hi"] - P["lo"]))
        pd = sdata(prod.seq)
    if P["kind"].startswith("typed:"):
        # the next-level class is a typed part (generic class + overhang signature): products whose overhangs spell the
        # signature are what the statement is about
        base = kit_class(st, P["kit"], P["kind"].split(":")[1])(prod)
        ctx.require(base.is_valid() is True, "product-rejected-by-next-level-class")
        for sig, got in zip(NL.signature, (base.overhang_start(), base.overhang_end())):
            if set(sig) <= set("ACGT"):
                ctx.assume(seq_eq(sdata(got), sig))
    if P.get("history"):
        # another plasmid of the next-level type, filed under the same identifier as the product, was typed before and
        # its entity is still alive (two cassettes both called "product")
        from .rblock import concrete_instance

        other = st.record.CircularRecord(st.Seq(concrete_instance(NL.structure(), fixed_letters(NL.structure()) + 3)), id=prod.id)
        earlier = NL(other)
        ctx.witness("earlier-accepted", earlier.is_valid())
        ctx.earlier = earlier
    if P.get("rotate") == "product-window":
        # the same product plasmid renumbered so that its origin falls inside the upstream next-level site, spacer or
        # overhang (the first letters of the next-level structure): same verdict, overhangs and target
        first = NL(prod)
        ctx.require(first.is_valid() is True, "product-rejected-by-next-level-class")
        s0 = ival(first._match.start())
        if not isinstance(s0, int):
            ctx.checked()
            return True
        ref_t, ref_s, ref_e = sdata(first.target_sequence().seq), first.overhang_start(), first.overhang_end()
        offsets = P["window"]
        prod = prod << (s0 + offsets[mk.pick("into", len(offsets))])
        again = NL(prod)
        ctx.require(again.is_valid() is True, "renumbered-product-rejected-by-next-level-class")
        ctx.require(seq_eq(again.overhang_start(), ref_s) and True, "renumbering-changes-the-upstream-overhang")
        ctx.require(seq_eq(again.overhang_end(), ref_e), "renumbering-changes-the-downstream-overhang")
        ctx.require(seq_eq(sdata(again.target_sequence().seq), ref_t), "renumbering-changes-the-next-level-target")
        ctx.witness("reached-next-level")
        return True
    nxt = NL(prod)
    v = nxt.is_valid()
    ctx.observe("next-valid", v)
    ctx.witness("reached-next-level")
    ctx.require(v is True, "product-rejected-by-next-level-class")
    insert = cat(*payload) if payload else cat(*targets)
    tgt = sdata(nxt.target_sequence().seq)
    ctx.require(SSeq.lift(tgt).contains_formula(insert), "next-level-target-does-not-contain-the-insert")
    # next-level assembly of the product into a vector with matching overhangs
    Mod2, Vec2 = stub_classes(st, str(getattr(NL.cutter, "real", NL.cutter)))
    ns, ne = nxt.overhang_start(), nxt.overhang_end()
    if Or(seq_eq(ns, ne), And([Eq(sat(ns, q), rc_codes(ns)[q]) for q in range(gN.ovl)])):
        ctx.witness("degenerate-next-overhangs")
        return True
    vec2 = Vec2(st.record.CircularRecord(st.Seq("ACGT"), id="v2"), st.Seq(sdata(ne)), st.Seq(sdata(ns)),
                lambda: st.SeqRecord(st.Seq(cat(sdata(ne), "TTTT")), id="v2"))
    out = run_assemble(st, vec2, [nxt])
    ctx.require(out["kind"] == "product", "next-level-assembly-failed:" + out["kind"])
    p2 = sdata(out["product"].seq)
    ctx.require(seq_eq(p2, cat(tgt, sdata(ne), "TTTT")), "next-level-product")
    return True


def obligations(tier, seed):
    from symx import loader

    st = loader.real_stack()
    obs = []
    trip = TRIPLES[:5] if tier == "quick" else TRIPLES
    for kit, vname, nname, kind in trip:
        F = fixed_letters(kit_class(st, kit, vname).structure())
        for c in (1, 2):
            if kind == "ytkproduct" and c == 2:
                continue
            if tier == "quick" and c == 2 and (F > 40 or vname == "CIDARCassetteVector"):
                continue
            obs.append(Ob("%s.%s + %d insert(s) -> %s" % (kit, vname, c, nname), ob_level,
                          dict(kit=kit, vector=vname, next=nname, kind=kind, n=F + 1, inserts=c), samples=3,
                          cost=(F + 1) ** 3 * c, expect_witness=("reached-next-level",)))
            if c == 1 and (tier != "quick" or kit == "cidar"):
                obs.append(Ob("%s.%s + 1 insert -> %s, a namesake of the product typed before" % (kit, vname, nname), ob_level,
                              dict(kit=kit, vector=vname, next=nname, kind=kind, n=F + 1, inserts=1, history=True), samples=3,
                              cost=(F + 1) ** 3, expect_witness=("reached-next-level", "earlier-accepted"), group="history"))
            if c == 1 and (tier != "quick" or kit == "cidar"):
                gN = Geometry(kit_class(st, kit, nname).cutter)
                obs.append(Ob("%s.%s + 1 insert -> %s, product renumbered into the upstream next-level site" % (kit, vname, nname),
                              ob_level, dict(kit=kit, vector=vname, next=nname, kind=kind, n=F + 1, inserts=1,
                                             rotate="product-window",
                                             window=sorted({1, gN.L - 1, gN.L, gN.lo}) if tier == "quick" else list(range(1, gN.lo + 2))),
                              samples=3, cost=(F + 1) ** 3 * 4,
                              expect_witness=("reached-next-level",), group="product window"))
            if c == 1 and kit == "cidar" and vname == "CIDAREntryVector":
                for typed in tier_pick(tier, ["CIDARPromoter"], ["CIDARPromoter", "CIDARCodingSequence", "CIDARTerminator"]):
                    obs.append(Ob("%s.%s + 1 insert -> typed part %s, a namesake of the product typed before" % (kit, vname, typed),
                                  ob_level, dict(kit=kit, vector=vname, next=typed, kind="typed:" + nname, n=F + 1, inserts=1,
                                                 history=True), samples=0, cost=(F + 1) ** 3,
                                  expect_witness=("reached-next-level", "earlier-accepted"), group="history"))
            if c == 1 and tier != "quick" and (kit, vname) in (("cidar", "CIDAREntryVector"), ("ytk", "YTKEntryVector")):
                n = F + 1
                for which, total in (("vector", n),):
                    chunks = 4
                    step = (total + chunks - 1) // chunks
                    for lo in range(0, total, step):
                        hi = min(total, lo + step)
                        obs.append(Ob("%s.%s + 1 insert -> %s, %s renumbered by %d..%d" % (kit, vname, nname, which, lo, hi - 1),
                                      ob_level, dict(kit=kit, vector=vname, next=nname, kind=kind, n=n, inserts=1,
                                                     rotate=which, lo=lo, hi=hi), samples=2, cost=(F + 1) ** 3 * 3,
                                      group="%s.%s rotated %s" % (kit, vname, which)))
    return obs
