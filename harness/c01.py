# C01 - assembly yields exactly the Golden Gate ligation product (end to end, blocks R + W).
# Code executed symbolically: generic AbstractModule/AbstractVector subclasses per enzyme geometry
# (structure(), typing, fragment extraction) and AbstractVector.assemble / AssemblyManager on them.
from .common import *
from .rblock import *

ID = "C01"
LEVEL_TEXT = ("Bounded verification by symbolic execution of the real code end to end: for each enzyme geometry the plasmids of "
              "the formal definition (docs/source/theory/standard.rst) are built with concrete recognition sites and fully "
              "symbolic spacers, overhangs, targets, backbones and placeholder; one plasmid at a time is presented at every "
              "rotation; the overhang chain is imposed by construction; z3 shows that assemble() returns, on every feasible "
              "path, a circular record equal (as a circular word) to up(v).b.o5_1.t_1...o5_c.t_c with exactly the summed "
              "length.  Bounded claim.")
LEVEL_NOTE = ("Bounds: chain length c<=2 quick / c<=3 thorough; 6 geometries quick / all 20 single-cut, non-palindromic, "
              "unambiguous-site, downstream-cutting 5'-overhang geometries of the installed Bio.Restriction (one enzyme each) "
              "thorough; |t| in {2,3}, |b| in {2,3}, |p| in {0,2}; every rotation of one plasmid at a time (typing of each "
              "plasmid is rotation invariant by C02, the walk reads only overhangs and fragments by C03). Targets and vector "
              "backbones shorter than 2 nt are outside the domain (the elucidated cut pattern carries one context nucleotide). "
              "Longer chains follow the loop invariant of _generate_assembly but are not claimed. Trusted: z3, CPython, symx models.")
LEVEL_NOTE_EXTRA = 'Also: record identifiers all equal / modules equal (labels, not inputs).'
TECHNIQUE = "bounded symbolic execution of the real Python source (symx) with z3, end-to-end typing + assembly per enzyme geometry; closed-form product oracle; replay on the real stack"
EXPLANATION = ("the formal plasmid decompositions are instantiated with symbolic letters; the real classes type them, extract "
               "the fragments and assemble; the product is compared with the documented closed form")
ASSUMPTIONS = [
    "each plasmid carries exactly the two recognition sites of the definition (no other occurrence on the circle, either strand)",
    "all cohesive ends of the chain pairwise distinct (unambiguous complete assembly); start overhangs not reverse-"
    "complementary to a start overhang (incl. their own)",
    "|t| >= 2, |b| >= 2; letters over ACGT",
    "one plasmid rotated at a time (others in canonical position)",
]


def bounds(tier):
    return dict(chain_max=tier_pick(tier, 2, 3), geometries=tier_pick(tier, 6, 20), rotations="all residues of one plasmid at a time")


def rot(data, rho):
    """right rotation of sequence data by concrete rho"""
    n = len(data) if isinstance(data, str) else data.n
    if rho % n == 0:
        return data
    k = n - (rho % n)
    return data[k:] + data[:k]


def cat(*xs):
    out = xs[0]
    for x in xs[1:]:
        out = out + x
    return out


def only_sites(ctx, data, n, g, designated):
    """no occurrence of the site (either strand) on the circle except at the designated starts"""
    from .rblock import _letters_at

    hint = getattr(sdata(data), "hint", None)
    cs = []
    for p in range(n):
        if ("f", p) not in designated:
            cs.append(Not(_letters_at(data, n, p, g.site, hint)))
        if ("r", p) not in designated:
            cs.append(Not(_letters_at(data, n, p, g.rsite, hint)))
    ctx.assume(And(cs))


def ob_assemble(ctx):
    st = ctx.stack
    P = ctx.P
    enzyme = P["enzyme"]
    g = Geometry(st.enzyme(enzyme))
    c = P["chain"]
    off = g.lo - g.L
    tl, bl, pl = P["tlen"], P["blen"], P["plen"]
    mk = ctx.mk
    # overhangs along the chain: o[0] = down(v) = up(m_1), o[i] = down(m_i) = up(m_{i+1}), o[c] = up(v)
    o = [mk.seq("o%d" % i, g.ovl, "ACGT") for i in range(c + 1)]
    ts = [mk.seq("t%d" % i, tl + (i % 2), "ACGT") for i in range(c)]
    mods_data = []
    for i in range(c):
        x = mk.seq("mx%d" % i, off, "ACGT")
        y = mk.seq("my%d" % i, off, "ACGT")
        b = mk.seq("mb%d" % i, bl + 1 - (i % 2), "ACGT")
        d = cat(g.site, x, o[i], ts[i], o[i + 1], y, g.rsite, b)
        n_i = slen(d)
        only_sites(ctx, d, n_i, g, {("f", 0), ("r", g.L + off + g.ovl + slen(ts[i]) + g.ovl + off)})
        mods_data.append(d)
    vb = mk.seq("vb", bl, "ACGT")
    vy = mk.seq("vy", off, "ACGT")
    vx = mk.seq("vx", off, "ACGT")
    vp = mk.seq("vp", pl, "ACGT")
    vd = cat(o[c], vb, o[0], vy, g.rsite, vp, g.site, vx)
    nv = slen(vd)
    rpos = g.ovl + bl + g.ovl + off
    only_sites(ctx, vd, nv, g, {("r", rpos), ("f", rpos + g.L + pl)})
    # uniqueness of the cohesive ends
    cs = []
    for i in range(c + 1):
        for j in range(i + 1, c + 1):
            cs.append(Not(seq_eq(o[i], o[j])))  # unambiguous, complete chain: all cohesive ends differ
    for i in range(c):
        for j in range(i, c):
            rc = [scomp_code(sat(o[j], g.ovl - 1 - q)) for q in range(g.ovl)]
            cs.append(Not(And([Eq(sat(o[i], q), rc[q]) for q in range(g.ovl)])))
    ctx.assume(And(cs))
    # one plasmid at a time is presented at an arbitrary rotation
    which = P["rotate"]
    if which != "none":
        rho = P["lo"] + mk.pick("rho", P["hi"] - P["lo"])
        if which == "vector":
            vd = rot(vd, rho)
        else:
            mods_data[int(which[1:])] = rot(mods_data[int(which[1:])], rho)
    Mc = generic_class(st, "module", enzyme)
    Vc = generic_class(st, "vector", enzyme)
    # record identifiers are labels: the product does not depend on whether they are distinct
    ids = P.get("ids", "distinct")
    mid = (lambda i: "m%d" % i) if ids == "distinct" else (lambda i: "Exported")
    vid = "Exported" if ids == "all-same" else "vec"
    mods = [Mc(st.record.CircularRecord(st.Seq(_conc(d)), id=mid(i))) for i, d in enumerate(mods_data)]
    vec = Vc(st.record.CircularRecord(st.Seq(_conc(vd)), id=vid))
    order = list(range(c))
    if P.get("reverse_args"):
        order.reverse()
    prod = vec.assemble(*[mods[i] for i in order], id="prod", name="prod")
    ctx.observe("product", prod.seq)
    ctx.require(isinstance(prod, st.record.CircularRecord), "product-type")
    want = cat(o[c], vb)
    for i in range(c):
        want = cat(want, o[i], ts[i])
    N = slen(want)
    d = sdata(prod.seq)
    ctx.require(Eq(slen(d), N), "product-length")
    alts = [And([Eq(sat(d, j), sat(want, (j + r) % N)) for j in range(N)]) for r in range(N)]
    # the linearisation the implementation is known to use goes first (cheap witness)
    lin = cat(*[cat(o[i], ts[i]) for i in range(c)] + [o[c], vb])
    ctx.require_exists(seq_eq(d, lin), lambda: Or(alts), "product-is-not-the-documented-circular-word")
    # the same objects assembled again (a library built in one destination vector) give the same plasmid
    again = vec.assemble(*[mods[i] for i in order], id="prod", name="prod")
    ctx.require(seq_eq(again.seq, d), "second-assembly-of-the-same-objects-differs")
    return True


def _conc(d):
    return d


QUICK_ENZYMES = ["BsaI", "BbsI", "SapI", "FokI", "BccI", "BtgZI"]


def obligations(tier, seed):
    obs = []
    geos = geometries()
    names = QUICK_ENZYMES if tier == "quick" else [v[0] for k, v in sorted(geos.items())]
    chunks = 2
    for e in names:
        from Bio import Restriction

        g = Geometry(getattr(Restriction, e))
        off = g.lo - g.L
        for c in range(1, tier_pick(tier, 2, 3) + 1):
            if g.ovl == 1 and c >= 3:
                continue  # no three pairwise non-complementary 1-nt start overhangs exist: the domain is empty
            tlen, blen = 2, 2
            plens = [0, 2] if (tier != "quick" or c == 1) else [2]
            for plen in plens:
                base = dict(enzyme=e, chain=c, tlen=tlen, blen=blen, plen=plen)
                obs.append(Ob("%s chain=%d p=%d canonical" % (e, c, plen), ob_assemble, dict(base, rotate="none"),
                              samples=3, cost=c * 30 ** 2))
                if c >= 2:
                    obs.append(Ob("%s chain=%d p=%d canonical reversed-args" % (e, c, plen), ob_assemble,
                                  dict(base, rotate="none", reverse_args=True), samples=3, cost=c * 30 ** 2))
                if plen == plens[-1] and (c >= 2 or tier != "quick"):
                    for ids in ("all-same", "modules-same"):
                        obs.append(Ob("%s chain=%d p=%d canonical, record ids %s" % (e, c, plen, ids), ob_assemble,
                                      dict(base, rotate="none", ids=ids), samples=3, cost=c * 30 ** 2, group="ids"))
                if plen != plens[-1]:
                    continue
                nv = g.ovl + blen + g.ovl + off + g.L + plen + g.L + off
                targets = [("vector", nv)]
                for i in range(c):
                    ni = g.L + off + g.ovl + (tlen + i % 2) + g.ovl + off + g.L + (blen + 1 - i % 2)
                    if tier == "quick" and i > 0:
                        continue
                    targets.append(("m%d" % i, ni))
                for which, n in targets:
                    step = (n + chunks - 1) // chunks
                    for lo in range(1, n, step):
                        hi = min(n, lo + step)
                        obs.append(Ob("%s chain=%d p=%d rotate %s rho=%d..%d" % (e, c, plen, which, lo, hi - 1),
                                      ob_assemble, dict(base, rotate=which, lo=lo, hi=hi), samples=3,
                                      cost=c * n * (hi - lo) * 10, group="%s chain=%d rotate %s" % (e, c, which)))
    return obs
