# Models of the Biopython classes moclo touches (Bio.Seq.Seq, Bio.SeqRecord.SeqRecord,
# Bio.SeqFeature.*).  Each method mirrors the corresponding Biopython 1.88 method statement for
# statement, restricted to the behaviour reachable from moclo; they accept concrete values
# (str / int) as well as proxies so that they can be validated differentially against the library.
import numbers
import warnings

from ..core import (SSeq, SInt, SBool, Seqlike, Unsupported, If, And, Or, Not, Eq, S, is_sym)
from .. import sbuiltins as sb


# ------------------------------------------------------------------------------------------------
class Seq(Seqlike):
    def __init__(self, data=None, length=None):
        if data is None:
            raise Unsupported("Seq(None)")
        if isinstance(data, Seq):
            data = data._d
        elif isinstance(data, (bytes, bytearray)):
            data = bytes(data).decode("ASCII")
        elif not isinstance(data, (str, SSeq)):
            raise TypeError(
                "data should be a string, bytes, bytearray, Seq, or MutableSeq object")
        self._d = data

    # sym-aware protocol used by the private builtins
    def __sym_len__(self):
        return sb.s_len(self._d)

    def __sym_str__(self):
        return self._d

    def __len__(self):
        return len(self._d)

    def __str__(self):
        return self._d if isinstance(self._d, str) else str(self._d)

    def __repr__(self):
        return "Seq(%r)" % (self._d,)

    def __format__(self, spec):
        return format(str(self), spec)

    def __bytes__(self):
        if isinstance(self._d, str):
            return self._d.encode("ASCII")
        raise Unsupported("bytes() of a symbolic Seq")

    def __bool__(self):
        return bool(sb.s_len(self._d) != 0)

    def __hash__(self):
        # constant: concrete and symbolic keys must meet in the same dict bucket so that key
        # comparison is always decided by __eq__ (i.e. by the solver)
        return 0

    def __iter__(self):
        return iter(self._d)

    def __getitem__(self, index):
        d = self._d
        if isinstance(d, str):
            # concrete letters, symbolic index: keep the index symbolic instead of realising it
            if isinstance(index, SInt) or (isinstance(index, slice) and (isinstance(index.start, SInt)
                                                                          or isinstance(index.stop, SInt))):
                d = SSeq.const(d)
        if isinstance(index, (numbers.Integral, SInt)):
            return d[index]  # a letter, as a string
        return Seq(d[index])

    @staticmethod
    def _other(o):
        if isinstance(o, Seq):
            return o._d
        if isinstance(o, (str, SSeq)):
            return o
        if isinstance(o, (bytes, bytearray)):
            return bytes(o).decode("ASCII")
        return None

    def __add__(self, other):
        od = Seq._other(other)
        if od is None:
            return NotImplemented
        return Seq(self._d + od)

    def __radd__(self, other):
        od = Seq._other(other)
        if od is None:
            return NotImplemented
        return Seq(od + self._d)

    def __mul__(self, k):
        if not isinstance(k, (numbers.Integral, SInt)):
            raise TypeError("can't multiply Seq by non-int")
        return Seq(self._d * k)

    __rmul__ = __mul__

    def __eq__(self, other):
        od = Seq._other(other)
        if od is None:
            return NotImplemented
        return self._d == od

    def __ne__(self, other):
        r = self.__eq__(other)
        if r is NotImplemented:
            return r
        return Not(r)

    def __lt__(self, other):
        od = Seq._other(other)
        if isinstance(self._d, str) and isinstance(od, str):
            return self._d < od
        raise Unsupported("ordering of symbolic Seq")

    def __contains__(self, item):
        od = Seq._other(item)
        if od is None:
            raise TypeError("a Seq, str or bytes-like object is required")
        return od in self._d

    def _map(self, name):
        d = self._d
        return Seq(getattr(d, name)())

    def upper(self, inplace=False):
        return self._map("upper")

    def lower(self, inplace=False):
        return self._map("lower")

    def isupper(self):
        if isinstance(self._d, str):
            return self._d.isupper()
        raise Unsupported("isupper on symbolic Seq")

    def islower(self):
        if isinstance(self._d, str):
            return self._d.islower()
        raise Unsupported("islower on symbolic Seq")

    def complement(self, inplace=False):
        if isinstance(self._d, str):
            import Bio.Seq

            return Seq(str(Bio.Seq.Seq(self._d).complement()))
        return Seq(self._d.complement())

    def reverse_complement(self, inplace=False):
        if isinstance(self._d, str):
            import Bio.Seq

            return Seq(str(Bio.Seq.Seq(self._d).reverse_complement()))
        return Seq(self._d.revcomp())

    def reverse_complement_rna(self, inplace=False):
        if isinstance(self._d, str):
            import Bio.Seq

            return Seq(str(Bio.Seq.Seq(self._d).reverse_complement_rna()))
        raise Unsupported("reverse_complement_rna on symbolic Seq")

    def find(self, sub, start=0, end=None):
        od = Seq._other(sub)
        if end is not None:
            raise Unsupported("Seq.find with end")
        return self._d.find(od, start)

    def count(self, sub):
        od = Seq._other(sub)
        return self._d.count(od)

    def startswith(self, p):
        return self._d.startswith(Seq._other(p))

    def endswith(self, p):
        return self._d.endswith(Seq._other(p))

    def __deepcopy__(self, memo):
        return Seq(self._d)

    def __copy__(self):
        return Seq(self._d)


class MutableSeq(Seq):
    pass


# ------------------------------------------------------------------------------------------------
class Position(object):
    pass


class ExactPosition(int, Position):
    def __new__(cls, position, extension=0):
        if extension != 0:
            raise AttributeError("Non-zero extension %s for exact position." % extension)
        if isinstance(position, SInt):
            return position
        return int.__new__(cls, position)

    def __add__(self, offset):
        if isinstance(offset, SInt):
            return int(self) + offset
        return self.__class__(int(self) + offset)

    def _flip(self, length):
        if isinstance(length, SInt):
            return length - int(self)
        return self.__class__(length - int(self))


class SFuzzy(SInt):
    """a symbolic coordinate that is a BeforePosition ('<5') or an AfterPosition ('>5'): as in Biopython only
    `position + offset` keeps the kind, every other arithmetic gives a plain integer"""
    __slots__ = ("kind",)

    def __init__(self, e, kind):
        SInt.__init__(self, e)
        self.kind = kind

    def __add__(self, offset):
        if not isinstance(offset, (int, SInt)):
            return NotImplemented
        return _fuzzy(self.kind, SInt.__add__(self, offset))

    def __radd__(self, other):
        return SInt.__add__(self, other)

    def _flip(self, length):
        return _fuzzy("after" if self.kind == "before" else "before", length - SInt(self.e))


class _FuzzyConcrete(int, Position):
    kind = None

    def __new__(cls, position, extension=0):
        if extension != 0:
            raise AttributeError("Non-zero extension %s for a fuzzy position." % extension)
        if isinstance(position, SInt):
            return SFuzzy(position.e, cls.kind)
        return int.__new__(cls, position)

    def __add__(self, offset):
        if isinstance(offset, SInt):
            return _fuzzy(self.kind, int(self) + offset)
        return self.__class__(int(self) + offset)

    def _flip(self, length):
        return _fuzzy("after" if self.kind == "before" else "before", length - int(self))


class BeforePosition(_FuzzyConcrete):
    kind = "before"

    def __repr__(self):
        return "BeforePosition(%i)" % int(self)


class AfterPosition(_FuzzyConcrete):
    kind = "after"

    def __repr__(self):
        return "AfterPosition(%i)" % int(self)


def _fuzzy(kind, value):
    if isinstance(value, SInt):
        return SFuzzy(value.e, kind)
    return (BeforePosition if kind == "before" else AfterPosition)(int(value))


def position_kind(p):
    """'exact' | 'before' | 'after' for model and Biopython positions alike"""
    k = getattr(p, "kind", None)
    if k in ("before", "after"):
        return k
    return {"BeforePosition": "before", "AfterPosition": "after"}.get(type(p).__name__, "exact")


def _pos_flip(p, length):
    if isinstance(p, (ExactPosition, _FuzzyConcrete, SFuzzy)):
        return p._flip(length)
    return length - p


def _isint(x):
    return isinstance(x, (int, SInt))


class Location(object):
    pass


class SimpleLocation(Location):
    def __init__(self, start, end, strand=None, ref=None, ref_db=None):
        if isinstance(start, Position) or isinstance(start, SInt):
            self._start = start
        elif isinstance(start, int):
            self._start = ExactPosition(start)
        else:
            raise TypeError("start=%r %s" % (start, type(start)))
        if isinstance(end, Position) or isinstance(end, SInt):
            self._end = end
        elif isinstance(end, int):
            self._end = ExactPosition(end)
        else:
            raise TypeError("end=%r %s" % (end, type(end)))
        if _isint(self.start) and _isint(self.end) and self.start > self.end:
            raise ValueError("End location must be greater than or equal to start location")
        self.strand = strand
        self.ref = ref
        self.ref_db = ref_db

    def _get_strand(self):
        return self._strand

    def _set_strand(self, value):
        if isinstance(value, SInt):
            if not Or(value == 1, value == -1, value == 0):
                raise ValueError("Strand should be +1, -1, 0 or None")
        elif value not in [+1, -1, 0, None]:
            raise ValueError("Strand should be +1, -1, 0 or None, not %r" % (value,))
        self._strand = value

    strand = property(fget=_get_strand, fset=_set_strand)

    def __repr__(self):
        return "SimpleLocation(%r, %r, strand=%r)" % (self._start, self._end, self._strand)

    def __add__(self, other):
        if isinstance(other, SimpleLocation):
            return CompoundLocation([self, other])
        elif isinstance(other, (int, SInt)):
            return self._shift(other)
        else:
            return NotImplemented

    def __radd__(self, other):
        if isinstance(other, (int, SInt)):
            return self._shift(other)
        else:
            return NotImplemented

    def __sub__(self, other):
        if isinstance(other, (int, SInt)):
            return self._shift(-other)
        else:
            return NotImplemented

    def __nonzero__(self):
        return True

    def __len__(self):
        return int(self._end) - int(self._start)

    def __sym_len__(self):
        return self._end - self._start

    def __contains__(self, value):
        if not isinstance(value, (int, SInt)):
            raise ValueError("Currently we only support checking for integer positions")
        if value < self._start or value >= self._end:
            return False
        return True

    def __eq__(self, other):
        if not isinstance(other, SimpleLocation):
            return False
        return bool(And(Eq(self._start, other.start), Eq(self._end, other.end),
                        _strand_eq(self._strand, other.strand),
                        self.ref == other.ref, self.ref_db == other.ref_db))

    __hash__ = None

    def _shift(self, offset):
        if self.ref or self.ref_db:
            return self
        return SimpleLocation(start=self._start + offset, end=self._end + offset,
                              strand=self.strand)

    def _flip(self, length):
        if self.ref or self.ref_db:
            return self
        st = self.strand
        if isinstance(st, SInt):
            flip_strand = If(st == 1, -1, If(st == -1, 1, st))
        elif st == +1:
            flip_strand = -1
        elif st == -1:
            flip_strand = +1
        else:
            flip_strand = st
        return SimpleLocation(start=_pos_flip(self._end, length),
                              end=_pos_flip(self._start, length), strand=flip_strand)

    @property
    def parts(self):
        return [self]

    @property
    def start(self):
        return self._start

    @property
    def end(self):
        return self._end

    def __deepcopy__(self, memo):
        return SimpleLocation(self._start, self._end, self._strand, self.ref, self.ref_db)


FeatureLocation = SimpleLocation


def _strand_eq(a, b):
    if a is None or b is None:
        return a is b
    return Eq(a, b)


class CompoundLocation(Location):
    def __init__(self, parts, operator="join"):
        self.operator = operator
        self.parts = list(parts)
        for loc in self.parts:
            if not isinstance(loc, SimpleLocation):
                raise ValueError("CompoundLocation should be given a list of "
                                 "SimpleLocation objects, not %s" % loc.__class__)
        if len(parts) < 2:
            raise ValueError("CompoundLocation should have at least 2 parts, not %r" % (parts,))

    def __repr__(self):
        return "CompoundLocation(%r, %r)" % (self.parts, self.operator)

    def _get_strand(self):
        first = self.parts[0].strand
        for loc in self.parts[1:]:
            if not _strand_eq(first, loc.strand):
                return None
        return first

    def _set_strand(self, value):
        for loc in self.parts:
            loc.strand = value

    strand = property(fget=_get_strand, fset=_set_strand)

    def __add__(self, other):
        if isinstance(other, SimpleLocation):
            return CompoundLocation(self.parts + [other], self.operator)
        elif isinstance(other, CompoundLocation):
            if self.operator != other.operator:
                raise ValueError("Mixed operators %s and %s" % (self.operator, other.operator))
            return CompoundLocation(self.parts + other.parts, self.operator)
        elif isinstance(other, (int, SInt)):
            return self._shift(other)
        else:
            raise NotImplementedError

    def __radd__(self, other):
        if isinstance(other, SimpleLocation):
            return CompoundLocation([other] + self.parts, self.operator)
        elif isinstance(other, (int, SInt)):
            return self._shift(other)
        else:
            raise NotImplementedError

    def __contains__(self, value):
        for loc in self.parts:
            if value in loc:
                return True
        return False

    def __nonzero__(self):
        return True

    def __len__(self):
        return sum(len(loc) for loc in self.parts)

    def __eq__(self, other):
        if not isinstance(other, CompoundLocation):
            return False
        if len(self.parts) != len(other.parts):
            return False
        if self.operator != other.operator:
            return False
        for self_part, other_part in zip(self.parts, other.parts):
            if self_part != other_part:
                return False
        return True

    __hash__ = None

    def _shift(self, offset):
        return CompoundLocation([loc._shift(offset) for loc in self.parts], self.operator)

    def _flip(self, length):
        if all(loc.strand is None for loc in self.parts):
            return CompoundLocation([loc._flip(length) for loc in self.parts[::-1]],
                                    self.operator)
        else:
            return CompoundLocation([loc._flip(length) for loc in self.parts], self.operator)

    @property
    def start(self):
        return sb.s_min(loc.start for loc in self.parts)

    @property
    def end(self):
        return sb.s_max(loc.end for loc in self.parts)

    @property
    def ref(self):
        return None

    @property
    def ref_db(self):
        return None

    def __deepcopy__(self, memo):
        import copy

        return CompoundLocation([copy.deepcopy(p, memo) for p in self.parts], self.operator)


class SeqFeature(object):
    def __init__(self, location=None, type="", id="<unknown id>", qualifiers=None,
                 sub_features=None):
        if (location is not None and not isinstance(location, SimpleLocation)
                and not isinstance(location, CompoundLocation)):
            raise TypeError("SimpleLocation, CompoundLocation (or None) required for the location")
        self.location = location
        self.type = type
        self.id = id
        self.qualifiers = {}
        if qualifiers is not None:
            self.qualifiers.update(qualifiers)
        if sub_features is not None:
            raise TypeError("Rather than sub_features, use a CompoundLocation")

    def __eq__(self, other):
        return (isinstance(other, SeqFeature) and self.id == other.id and self.type == other.type
                and self.location == other.location and self.qualifiers == other.qualifiers)

    __hash__ = None

    def __repr__(self):
        return "SeqFeature(%r, type=%r)" % (self.location, self.type)

    def _shift(self, offset):
        return SeqFeature(location=self.location._shift(offset), type=self.type, id=self.id,
                          qualifiers=self.qualifiers.copy())

    def _flip(self, length):
        return SeqFeature(location=self.location._flip(length), type=self.type, id=self.id,
                          qualifiers=self.qualifiers.copy())

    @property
    def strand(self):
        return self.location.strand

    @property
    def ref(self):
        return self.location.ref

    def __bool__(self):
        return True

    def __len__(self):
        return len(self.location)


class Reference(object):
    def __init__(self):
        self.location = []
        self.authors = ""
        self.consrtm = ""
        self.title = ""
        self.journal = ""
        self.medline_id = ""
        self.pubmed_id = ""
        self.comment = ""

    def __eq__(self, other):
        # (as Biopython 1.88: attribute access on whatever it is compared with)
        return (self.authors == other.authors
                and self.consrtm == other.consrtm and self.title == other.title
                and self.journal == other.journal and self.medline_id == other.medline_id
                and self.pubmed_id == other.pubmed_id and self.comment == other.comment
                and self.location == other.location)

    __hash__ = None

    def __repr__(self):
        return "Reference(title=%r, ...)" % (self.title,)


# ------------------------------------------------------------------------------------------------
class _RestrictedDict(dict):
    def __init__(self, length):
        dict.__init__(self)
        self._length = length

    def __setitem__(self, key, value):
        if (not hasattr(value, "__len__") or not hasattr(value, "__getitem__")
                or (hasattr(self, "_length") and sb.s_len(value) != self._length)):
            raise TypeError("Any per-letter annotation should be a Python sequence "
                            "(list, tuple or string) of the same length as the "
                            "biological sequence")
        dict.__setitem__(self, key, value)

    def update(self, new_dict):
        for key, value in new_dict.items():
            self[key] = value


_NO_SEQRECORD_COMPARISON = "SeqRecord comparison is deliberately not implemented."


def slice_indices(index, length):
    """slice.indices for possibly symbolic bounds (step None/1 only) -> (start, stop, step)"""
    step = index.step
    if step is not None and not (isinstance(step, int) and step == 1):
        if not is_sym(index.start) and not is_sym(index.stop) and isinstance(length, int):
            return index.indices(length)
        raise Unsupported("record slice with step on symbolic bounds")

    def norm(i, default):
        if i is None:
            return default
        if isinstance(i, int) and isinstance(length, int):
            if i < 0:
                i += length
                return 0 if i < 0 else i
            return length if i > length else i
        return If(i < 0, If(i + length < 0, 0, i + length), If(i > length, length, i))

    return norm(index.start, 0), norm(index.stop, length), 1


class SeqRecord(object):
    def __init__(self, seq, id="<unknown id>", name="<unknown name>",
                 description="<unknown description>", dbxrefs=None, features=None,
                 annotations=None, letter_annotations=None):
        if seq is not None and not isinstance(seq, (Seq, MutableSeq)):
            raise TypeError("seq argument should be a Seq or MutableSeq object")
        if id is not None and not isinstance(id, (str, SSeq)):
            raise TypeError("id argument should be a string")
        if not isinstance(name, (str, SSeq)):
            raise TypeError("name argument should be a string")
        if not isinstance(description, (str, SSeq)):
            raise TypeError("description argument should be a string")
        self._seq = seq
        self.id = id
        self.name = name
        self.description = description
        if dbxrefs is None:
            dbxrefs = []
        elif not isinstance(dbxrefs, list):
            raise TypeError("dbxrefs argument should be a list (of strings)")
        self.dbxrefs = dbxrefs
        if annotations is None:
            annotations = {}
        elif not isinstance(annotations, dict):
            raise TypeError("annotations argument must be a dict or None")
        self.annotations = annotations
        self._per_letter_annotations = None
        if letter_annotations is not None:
            self.letter_annotations = letter_annotations
        if features is None:
            features = []
        elif not isinstance(features, list):
            raise TypeError("features argument should be a list (of SeqFeature objects)")
        self.features = features

    @property
    def letter_annotations(self):
        if self._per_letter_annotations is None:
            length = 0 if self.seq is None else sb.s_len(self.seq)
            self._per_letter_annotations = _RestrictedDict(length=length)
        return self._per_letter_annotations

    @letter_annotations.setter
    def letter_annotations(self, value):
        if not isinstance(value, dict):
            raise TypeError("The per-letter-annotations should be a (restricted) dictionary.")
        length = 0 if self.seq is None else sb.s_len(self.seq)
        if any(sb.s_len(val) != length for val in value.values()):
            raise ValueError("The per-letter-annotations have the same length as the sequence")
        if self._per_letter_annotations is None:
            self._per_letter_annotations = _RestrictedDict(length=length)
        else:
            self._per_letter_annotations.clear()
        dict.update(self._per_letter_annotations, value)

    @property
    def seq(self):
        return self._seq

    @seq.setter
    def seq(self, value):
        if value is not None and not isinstance(value, (Seq, MutableSeq)):
            raise TypeError("seq must be a Seq or MutableSeq object")
        if self._per_letter_annotations:
            if sb.s_len(self) != sb.s_len(value):
                raise ValueError("You must empty the letter annotations first!")
            else:
                self._seq = value
        else:
            self._seq = value
            length = 0 if self.seq is None else sb.s_len(self.seq)
            self._per_letter_annotations = _RestrictedDict(length=length)

    @classmethod
    def _from_validated(cls, seq, id="<unknown id>", name="<unknown name>",
                        description="<unknown description>", dbxrefs=None, features=None,
                        annotations=None, letter_annotations=None):
        if cls is not SeqRecord:
            return cls(seq, id, name, description, dbxrefs, features, annotations,
                       letter_annotations)
        inst = cls.__new__(cls)
        inst._seq = seq
        inst.id = id
        inst.name = name
        inst.description = description
        if dbxrefs is None:
            dbxrefs = []
        inst.dbxrefs = dbxrefs
        if features is None:
            features = []
        inst.features = features
        if annotations is None:
            annotations = {}
        inst.annotations = annotations
        inst._per_letter_annotations = None
        if letter_annotations is not None:
            length = 0 if seq is None else sb.s_len(seq)
            inst._per_letter_annotations = _RestrictedDict(length=length)
            dict.update(inst._per_letter_annotations, letter_annotations)
        return inst

    def __getitem__(self, index):
        if isinstance(index, (numbers.Integral, SInt)):
            if self.seq is None:
                raise ValueError("Seq in SeqRecord is None, it doesn't support indexing")
            return self.seq[index]
        elif isinstance(index, slice):
            if self.seq is None:
                raise ValueError("Seq in SeqRecord is None, we cannot slice it")
            parent_length = sb.s_len(self)
            answer = self._from_validated(self.seq[index], id=self.id, name=self.name,
                                          description=self.description)
            if "molecule_type" in self.annotations:
                answer.annotations["molecule_type"] = self.annotations["molecule_type"]
            start, stop, step = slice_indices(index, parent_length)
            if step == 1:
                for f in self.features:
                    if f.location.ref or f.location.ref_db:
                        warnings.warn("When slicing SeqRecord objects, any SeqFeature "
                                      "referencing other sequences are ignored.")
                        continue
                    try:
                        if start <= f.location.start and f.location.end <= stop:
                            answer.features.append(f._shift(-start))
                    except TypeError:
                        pass
            for key, value in self.letter_annotations.items():
                answer.letter_annotations[key] = value[index]
            return answer
        raise ValueError("Invalid index")

    def __iter__(self):
        return iter(self.seq)

    def __contains__(self, char):
        return char in self.seq

    def __bytes__(self):
        return bytes(self.seq)

    def __str__(self):
        return "ID: %s\nName: %s\nSeq: %r" % (self.id, self.name, self.seq)

    def __repr__(self):
        return "SeqRecord(seq=%r, id=%r)" % (self.seq, self.id)

    def __format__(self, spec):
        return str(self)

    def __len__(self):
        return len(self._seq) if self._seq is not None else 0

    def __sym_len__(self):
        return sb.s_len(self._seq) if self._seq is not None else 0

    def __lt__(self, other):
        raise NotImplementedError(_NO_SEQRECORD_COMPARISON)

    __le__ = __gt__ = __ge__ = __lt__

    def __eq__(self, other):
        raise NotImplementedError(_NO_SEQRECORD_COMPARISON)

    def __ne__(self, other):
        raise NotImplementedError(_NO_SEQRECORD_COMPARISON)

    __hash__ = None

    def __bool__(self):
        return True

    def __add__(self, other):
        if self._seq is None:
            raise ValueError("Left operand seq=None, can't add")
        if not isinstance(other, SeqRecord):
            return type(self)(self._seq + other, id=self.id, name=self.name,
                              description=self.description, features=self.features[:],
                              annotations=self.annotations.copy(), dbxrefs=self.dbxrefs[:])
        if other._seq is None:
            raise ValueError("Right SeqRecord has seq=None, can't add")
        answer = self._from_validated(self._seq + other._seq, features=self.features[:],
                                      dbxrefs=self.dbxrefs[:])
        length = sb.s_len(self)
        for f in other.features:
            answer.features.append(f._shift(length))
        del length
        for ref in other.dbxrefs:
            if ref not in answer.dbxrefs:
                answer.dbxrefs.append(ref)
        if self.id == other.id:
            answer.id = self.id
        if self.name == other.name:
            answer.name = self.name
        if self.description == other.description:
            answer.description = self.description
        for k, v in self.annotations.items():
            if k in other.annotations and other.annotations[k] == v:
                answer.annotations[k] = v
        for k, v in self.letter_annotations.items():
            if k in other.letter_annotations:
                dict.__setitem__(answer.letter_annotations, k, v + other.letter_annotations[k])
        return answer

    def __radd__(self, other):
        if isinstance(other, SeqRecord):
            raise RuntimeError("This should have happened via the __add__ of "
                               "the other SeqRecord being added!")
        if self.seq is None:
            raise TypeError("Can't add (right hand side) SeqRecord with seq = None")
        offset = sb.s_len(other)
        return type(self)(other + self.seq, id=self.id, name=self.name,
                          description=self.description,
                          features=[f._shift(offset) for f in self.features],
                          annotations=self.annotations.copy(), dbxrefs=self.dbxrefs[:])

    def upper(self):
        return SeqRecord(self.seq.upper(), id=self.id, name=self.name,
                         description=self.description, dbxrefs=self.dbxrefs[:],
                         features=self.features[:], annotations=self.annotations.copy(),
                         letter_annotations=self.letter_annotations.copy())

    def lower(self):
        return SeqRecord(self.seq.lower(), id=self.id, name=self.name,
                         description=self.description, dbxrefs=self.dbxrefs[:],
                         features=self.features[:], annotations=self.annotations.copy(),
                         letter_annotations=self.letter_annotations.copy())

    def reverse_complement(self, id=False, name=False, description=False, features=True,
                           annotations=False, letter_annotations=True, dbxrefs=False):
        if self.seq is None:
            raise ValueError("Seq in SeqRecord is None, so can't construct the reverse_complement.")
        if "protein" in self.annotations.get("molecule_type", ""):
            raise ValueError("Proteins do not have complements!")
        if "RNA" in self.annotations.get("molecule_type", ""):
            seq = self.seq.reverse_complement_rna()
        else:
            seq = self.seq.reverse_complement()
        answer = self._from_validated(seq)
        if isinstance(id, str):
            answer.id = id
        elif id:
            answer.id = self.id
        if isinstance(name, str):
            answer.name = name
        elif name:
            answer.name = self.name
        if isinstance(description, str):
            answer.description = description
        elif description:
            answer.description = self.description
        if isinstance(dbxrefs, list):
            answer.dbxrefs = dbxrefs
        elif dbxrefs:
            answer.dbxrefs = self.dbxrefs[:]
        if isinstance(features, list):
            answer.features = features
        elif features:
            length = sb.s_len(answer)
            answer.features = [f._flip(length) for f in self.features]

            def key_fun(f):
                try:
                    return sb.s_int(f.location.start)
                except TypeError:
                    return None

            answer.features.sort(key=key_fun)
        if isinstance(annotations, dict):
            answer.annotations = annotations
        elif annotations:
            answer.annotations = self.annotations.copy()
        if self._per_letter_annotations is not None:
            if isinstance(letter_annotations, dict):
                answer.letter_annotations = letter_annotations
            elif letter_annotations:
                for key, value in self.letter_annotations.items():
                    answer.letter_annotations[key] = value[::-1]
        return answer
