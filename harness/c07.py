# C07 - assembly is pure: inputs are left untouched, even when it fails.
# Code executed symbolically: AbstractVector.assemble, AssemblyManager.* (incl. the citation
# dereference/restore code), real target_sequence() on pre-set spans, with a symbolic overhang
# graph (all outcome classes) and an injected fault at a symbolic position of the chain.
from .common import *
from .annot import *
from .c10 import _Replay

ID = "C07"
LEVEL_TEXT = ("Bounded verification by symbolic execution of the real assembly code on shared record objects that carry features, "
              "citation qualifiers and reference lists: the overhang graph is symbolic (so success, UnusedModules, "
              "InvalidSequence, DuplicateModules and MissingModule after j consumed modules all occur) and the j-th fragment "
              "extraction may raise InvalidSequence or an arbitrary exception (j symbolic).  On every path a deep snapshot of "
              "every input (sequence, ids, features, qualifiers incl. citations, annotations, reference list) is identical "
              "before and after, a repeated call gives the same outcome, and a retry after the fault is removed gives what "
              "fresh copies give.  Bounded claim.")
LEVEL_NOTE = ("Bounds: m<=2 modules quick / m<=3 thorough, 2-nt symbolic overhangs, one cited feature + one feature with symbolic "
              "coordinates per record, 1 reference per record (shared or private), fault position 0..m+1. An absent reference "
              "list is equivalent to an empty one. Trusted: z3, CPython, symx models.")
LEVEL_NOTE_EXTRA = 'fault kinds: InvalidSequence / RuntimeError from a fragment extraction, out-of-range or malformed citation after a well-formed one; fault position case-split for m>=2; aliased inputs (same module object twice, two features sharing one citation list). Also: all records under one identifier; citation qualifiers in lists, tuples or bare strings; match spans starting at the origin and one turn later; per-letter annotations on the inputs; references with source spans.'
TECHNIQUE = "bounded symbolic execution of the real Python source (symx) with z3 over symbolic overhang graphs and fault positions; deep before/after snapshots; replay on the real stack"
EXPLANATION = ("all outcome classes of assemble() arise from one symbolic overhang graph; a fault is injected at a symbolic "
               "position; purity is a snapshot equality asserted on every path")
ASSUMPTIONS = [
    "modules/vector expose symbolic overhangs; fragments come from the real target_sequence() on pre-set match spans",
    "faults: an exception raised by a fragment extraction (InvalidSequence or RuntimeError), or a citation qualifier that "
    "cannot be dereferenced (out-of-range index / malformed text) placed after a well-formed one in a symbolic element",
]
N = 12
SP = module_spans(2, 4, 8, 10)


def bounds(tier):
    return dict(modules_max=tier_pick(tier, 2, 3), fault_positions="none, each module, vector")


def _build(ctx, st, P, bad=None):
    Mod, Vec = sliced_classes(st)
    mk = ctx.mk
    m = P["m"]
    k = 2
    up = mk.seq("up", k, "ACGT")
    down = mk.seq("down", k, "ACGT")
    starts = [mk.seq("s%d" % i, k, "ACGT") for i in range(m)]
    ends = [mk.seq("e%d" % i, k, "ACGT") for i in range(m)]
    recs = []
    for i in range(m + 1):
        shared = mk.bool("ref%d_shared" % i)
        ref = make_ref(st, "shared" if shared else "private%d" % i)
        inside = (3, 5) if i < m else (9, 11)
        f1 = st.SeqFeature(st.SimpleLocation(inside[0], inside[1], strand=1), type="CDS",
                           qualifiers={"label": ["cited%d" % i], "citation": ["[1]"]})
        if i == P["sympos"]:
            s = mk.int("f_s", 0, N - 1)
            ln = mk.int("f_l", 0, 6)
        else:
            s, ln = 1, 3
        f2 = st.SeqFeature(st.SimpleLocation(s, s + ln, strand=-1), type="misc", qualifiers={"label": ["free%d" % i], "note": ["n"]})
        ann = {"topology": "circular", "organism": "x"}
        if P["refs"] or i == 0:
            ann["references"] = [ref]
            if bad is not None and bad[0] == i:
                # a well-formed citation followed by one that cannot be dereferenced
                f1.qualifiers["citation"] = ["[1]", "[7]"] if bad[1] == 2 else ["[1]", "see ref. 1"]
        else:
            f1.qualifiers.pop("citation")
        recs.append(st.record.CircularRecord(st.Seq("ACGTTGCAAGCT"), id=("Exported" if P.get("ids") == "same" else "el%d" % i), name="n%d" % i, description="d",
                                             dbxrefs=["x:%d" % i], features=[f1, f2], annotations=ann,
                                             letter_annotations={"phred": [30 + j + i for j in range(N)]}))
    if P.get("container") == "tuple":
        # qualifier values written by a script as tuples instead of lists (Biopython accepts any container); which
        # records do is symbolic
        for i, rec in enumerate(recs):
            if "citation" in rec.features[0].qualifiers:
                kind = mk.pick("container_%d" % i, 3)  # 0 list, 1 tuple, 2 bare string (hand-built feature)
                cits = rec.features[0].qualifiers["citation"]
                if kind == 1:
                    rec.features[0].qualifiers["citation"] = tuple(cits)
                elif kind == 2 and len(cits) == 1:
                    rec.features[0].qualifiers["citation"] = cits[0]
                    ctx.bare_string = True
    if P.get("alias") == "shared-list":
        # two features of one record share their citation list object (as a feature copied with qualifiers.copy() does)
        recs[0].features[1].qualifiers["citation"] = recs[0].features[0].qualifiers["citation"]
    # where the structure lies on the plasmid: in the middle (default), from the very first letter, or starting exactly
    # one turn later (both make the rotation to the start of the match a rotation by a multiple of the length)
    sp = {"middle": SP, "at-origin": module_spans(0, 2, 6, 8), "one-turn-later": module_spans(N, N + 2, N + 6, N + 8)}[P.get("spans", "middle")]
    mods = [Mod(recs[i], st.Seq(starts[i]), st.Seq(ends[i]), sp) for i in range(m)]
    if P.get("alias") == "twice":
        mods.append(mods[0])  # the very same module object supplied twice
    vec = Vec(recs[m], st.Seq(up), st.Seq(down), sp if P.get("spans") else SP)
    return vec, mods, recs


def _call(st, vec, mods):
    try:
        out = run_assemble(st, vec, mods, id="p", name="p")
    except Exception as e:  # injected faults and anything undocumented
        out = dict(kind="raised:" + type(e).__name__, exc=e, unused=[])
    return out


def _same_outcome(a, b):
    if a["kind"] != b["kind"]:
        return False
    if a["kind"] == "product":
        return snap_equal(snapshot(a["product"]), snapshot(b["product"]))
    if a["kind"] == "MissingModule":
        return seq_eq(a["exc"].start_overhang, b["exc"].start_overhang)
    return True


def ob_pure(ctx):
    st = ctx.stack
    P = ctx.P
    m = P["m"]
    fault = P["fault"] if "fault" in P else ctx.mk.pick("fault", m + 2)
    kind = ctx.mk.pick("fault_kind", 4) if fault else 0
    data_fault = fault and kind >= 2 and (P["refs"] or fault == 1)
    vec, mods, recs = _build(ctx, st, P, bad=(fault - 1, kind) if data_fault else None)
    exc = None
    if fault and not data_fault:
        exc = st.errors.InvalidSequence(recs[fault - 1], details="became invalid") if kind % 2 == 0 else RuntimeError("boom")
        (mods + [vec])[fault - 1].fail_exc = exc
    before = [snapshot(r) for r in recs]
    o1 = _call(st, vec, mods)
    ctx.observe("kind", o1["kind"])
    ctx.witness(o1["kind"].split(":")[0])
    ctx.witness("fault-hit", o1["kind"].startswith("raised:") or (o1["kind"] == "InvalidSequence" and fault > 0))
    allowed = ["product", "InvalidSequence", "DuplicateModules", "MissingModule", "raised:RuntimeError"]
    if data_fault:
        allowed = ["InvalidSequence", "DuplicateModules", "raised:IndexError", "raised:ValueError"]
        ctx.witness("citation-fault-hit", o1["kind"].startswith("raised:"))
    if getattr(ctx, "bare_string", False):
        # a bare string is not a list of citations; refusing it (today: ValueError) is as good as accepting it, as long
        # as the inputs are left as they were
        allowed = allowed + ["raised:ValueError", "raised:TypeError"]
    if P.get("alias"):
        # whatever the call does with an aliased input (today: TypeError on the second dereference), it must be pure
        allowed = allowed + ["raised:TypeError", "raised:ValueError", "raised:AttributeError", "raised:IndexError"]
    ctx.require(o1["kind"] in allowed, "undocumented-outcome:" + o1["kind"])
    after = [snapshot(r) for r in recs]
    for i, (a, b) in enumerate(zip(before, after)):
        ctx.require(snap_equal(a, b), "input-%d-changed-after-%s" % (i, o1["kind"]))
    o2 = _call(st, vec, mods)
    ctx.require(_same_outcome(o1, o2), "second-call-differs:%s-then-%s" % (o1["kind"], o2["kind"]))
    for i, (a, b) in enumerate(zip(before, [snapshot(r) for r in recs])):
        ctx.require(snap_equal(a, b), "input-%d-changed-after-second-call" % i)
    if fault:
        # retry on the same objects once the fault is gone == first call on fresh copies
        if data_fault:
            recs[fault - 1].features[0].qualifiers["citation"][:] = ["[1]"]
        else:
            (mods + [vec])[fault - 1].fail_exc = None
        o3 = _call(st, vec, mods)
        saved = ctx.mk
        ctx.mk = _Replay(saved)
        try:
            vec4, mods4, recs4 = _build(ctx, st, P)
        finally:
            ctx.mk = saved
        o4 = _call(st, vec4, mods4)
        ctx.require(_same_outcome(o3, o4), "retry-differs-from-fresh:%s-vs-%s" % (o3["kind"], o4["kind"]))
    return True


def obligations(tier, seed):
    obs = []
    for alias in ("twice", "shared-list"):
        obs.append(Ob("purity with an aliased input (%s) m=1" % alias, ob_pure, dict(m=1, refs=True, sympos=0, alias=alias),
                      samples=10, cost=4000))
    # record identifiers are labels: inputs that share one are still separate inputs
    obs.append(Ob("purity m=1 citations-everywhere=True, all records share one id", ob_pure,
                  dict(m=1, refs=True, sympos=0, ids="same"), samples=10, cost=40, group="ids",
                  expect_witness=("product", "fault-hit")))
    for fault in tier_pick(tier, (0,), (0, 1, 3)):
        obs.append(Ob("purity m=2 citations-everywhere=True, all records share one id fault-at=%d" % fault, ob_pure,
                      dict(m=2, refs=True, sympos=0, ids="same", fault=fault), samples=6, cost=800, group="ids"))
    for spans in ("at-origin", "one-turn-later"):
        for sympos in (0, 1):
            obs.append(Ob("purity m=1 citations-everywhere=False symbolic-feature-in=el%d, structure %s" % (sympos, spans), ob_pure,
                          dict(m=1, refs=False, sympos=sympos, spans=spans, fault=0), samples=10, cost=50, group="spans",
                          expect_witness=("product",)))
    obs.append(Ob("purity m=1 citations-everywhere=True, citation qualifiers held in lists, tuples or bare strings", ob_pure,
                  dict(m=1, refs=True, sympos=0, container="tuple", fault=0), samples=10, cost=60, group="containers",
                  expect_witness=("product",)))
    obs.append(Ob("purity m=2 citations-everywhere=True, citation qualifiers held in lists, tuples or bare strings", ob_pure,
                  dict(m=2, refs=True, sympos=0, container="tuple", fault=0), samples=6, cost=900, group="containers"))
    for m in range(1, tier_pick(tier, 2, 3) + 1):
        for refs in (True, False):
            for sympos in range(m + 1):
                if tier == "quick" and m == 2 and sympos == 1:
                    continue
                if m == 1:
                    obs.append(Ob("purity m=%d citations-everywhere=%s symbolic-feature-in=el%d" % (m, refs, sympos), ob_pure,
                                  dict(m=m, refs=refs, sympos=sympos), samples=10, cost=40 ** m,
                                  expect_witness=("product", "MissingModule", "DuplicateModules", "InvalidSequence", "fault-hit")))
                    continue
                for fault in range(m + 2):  # the fault position is case-split into separate obligations
                    obs.append(Ob("purity m=%d citations-everywhere=%s symbolic-feature-in=el%d fault-at=%d" % (
                        m, refs, sympos, fault), ob_pure, dict(m=m, refs=refs, sympos=sympos, fault=fault), samples=6,
                        cost=40 ** m / 2, expect_witness=("MissingModule", "DuplicateModules", "InvalidSequence") + (("product",) if fault == 0 else ())))
    return obs
