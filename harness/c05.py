# C05 - a part type accepts exactly the records with its signature overhangs; characterize().
# Code executed symbolically: AbstractPart.structure/characterize, _utils.isabstract, block R on the
# part class and on the signature-free generic class with the same cutter and role.
from .common import *
from .rblock import *
from .c02 import unique_at_zero
from .c16 import iupac_values

ID = "C05"
LEVEL_TEXT = ("Bounded verification by symbolic execution of the real typing code on one symbolic plasmid through a signature-"
              "typed part class P and through the signature-free class G with the same cutter and role: z3 shows P accepts "
              "exactly when G accepts and G's reported overhangs match P's signature under IUPAC rules (table from "
              "Bio.Data.IUPACData), for kit classes and for user-defined signatures created at run time (concrete, 2-/3-fold "
              "degenerate, N); and that characterize() returns an accepting candidate and raises RuntimeError exactly when no "
              "candidate accepts.  Bounded claim.")
LEVEL_NOTE = ("Bounds: n = F+1 quick / [F, F+2] thorough; unique generic occurrence at canonical position (rotations: C02); every signature-derived kit "
              "class; 6 user signatures (quick) / 8 user signatures x 3 enzymes (thorough), plus 2 lower-/mixed-case signatures. Letters over ACGT. Trusted: z3, CPython, symx models.")
LEVEL_NOTE_EXTRA = "user parts over cutters with ambiguity codes in the site (AspBHI 5', TsoI 3'); characterize() on abstract and on concrete bases with narrower subtypes. Also: characterize with the plasmid filed at every origin; a leaf type nobody used before; a family that gains a member after its first use; user signatures spelled in lower and mixed case."
TECHNIQUE = "bounded symbolic execution of the real Python source (symx) with z3; differential obligation part class vs generic class + IUPAC oracle; replay on the real stack"
EXPLANATION = ("the derived part pattern and the generic pattern are both executed on the same symbolic record; agreement is an "
               "assertion over all records in the bound")
ASSUMPTIONS = [
    "exactly one occurrence of the generic structure on the circle, at index 0 (rotation invariance is C02's obligation)",
    "letters over ACGT; IUPAC sets from Bio.Data.IUPACData",
    "CPython re and Bio.Restriction.catalyse replaced by validated SMT models",
]


def bounds(tier):
    return dict(slack=tier_pick(tier, [1], [0, 1, 2]), user_signatures=len(USER_SIGS))


USER_SIGS = [("ATGC", "ATTC"), ("NNNN", "NNNN"), ("RYSW", "KMAC"), ("BDHV", "NACG"), ("GGAG", "NNNN"),
             ("NNNN", "CGCT"), ("ACGT", "ACGT"), ("WWSS", "TTAA")]


def sig_classes(st):
    """signature-derived kit classes: [(kit, name, cls, role)]"""
    out = []
    base = st.parts.AbstractPart.structure.__func__
    for kit, name, cls, role, pat in catalog(st):
        if not issubclass(cls, st.parts.AbstractPart):
            continue
        if getattr(cls, "signature", NotImplemented) is NotImplemented:
            continue
        if getattr(cls.structure, "__func__", None) is not base:
            continue
        out.append((kit, name, cls, role))
    return out


_USER = {}


def user_class(st, role, enzyme, sig):
    key = (st.kind, role, enzyme, sig)
    c = _USER.get(key)
    if c is None:
        base = st.modules.Entry if role == "module" else st.vectors.EntryVector
        c = type(str("UserPart_%s_%s_%s_%s" % (role, enzyme, sig[0], sig[1])), (st.parts.AbstractPart, base),
                 {"cutter": st.enzyme(enzyme), "signature": sig})
        _USER[key] = c
    return c


def matches_sig(ovh, sig):
    vals = iupac_values()
    d = sdata(ovh)
    cs = [Eq(slen(d), len(sig))]
    for j, ch in enumerate(sig):
        allowed = vals[ch.upper()]
        cs.append(Or([Eq(supper_code(sat(d, j)), code_of(c)) for c in sorted(allowed)]))
    return And(cs)


def _classes(st, P):
    if P["src"] == "kit":
        K = kit_class(st, P["kit"], P["cls"])
        role = role_of(st, K)
        G = generic_class(st, role, str(getattr(K.cutter, "real", K.cutter)))
    else:
        K = user_class(st, P["role"], P["enzyme"], tuple(P["sig"]))
        role = P["role"]
        G = generic_class(st, role, P["enzyme"])
    return K, G, role


def ob_part(ctx):
    st = ctx.stack
    P = ctx.P
    n = P["n"]
    K, G, role = _classes(st, P)
    upsig, downsig = K.signature
    r = ctx.mk.seq("r", n, "ACGT")
    unique_at_zero(ctx, G.structure(), r, n)
    rec = st.record.CircularRecord(st.Seq(r), id="rec")
    g = G(rec)
    p = K(rec)
    vg = g.is_valid()
    vp = p.is_valid()
    ctx.observe("valid", [vg, vp])
    if vg:
        want = And(matches_sig(g.overhang_start(), upsig), matches_sig(g.overhang_end(), downsig))
    else:
        want = False
    ctx.require(Iff(vp, want), "part-acceptance-differs-from-generic+signature")
    ctx.witness("generic-accepts-part-rejects", And(vg, Not(vp)))
    ctx.witness("both-accept" if (vg and vp) else "not-both")
    if vp:
        ctx.require(seq_eq(p.overhang_start(), g.overhang_start()) and True, "part-overhang_start-differs")
        ctx.require(seq_eq(p.overhang_end(), g.overhang_end()), "part-overhang_end-differs")
        ctx.require(seq_eq(p.target_sequence().seq, g.target_sequence().seq), "part-target-differs")
    return True


def ob_characterize(ctx):
    st = ctx.stack
    P = ctx.P
    n = P["n"]
    if P["src"] == "kit":
        B = kit_class(st, P["kit"], P["cls"])
        role = role_of(st, B)
        enzyme = str(getattr(B.cutter, "real", B.cutter))
    elif P.get("fresh"):
        # classes nobody has used yet (declared in this very call): a concrete leaf type asked directly and first, or a
        # family that gains a member after its base has already typed a record
        role, enzyme = P["role"], P["enzyme"]
        base = st.modules.Entry if role == "module" else st.vectors.EntryVector
        if P["fresh"] == "leaf":
            B = type(str("FreshLeaf"), (st.parts.AbstractPart, base), {"cutter": st.enzyme(enzyme), "signature": ("AATG", "NNNN")})
            keep = [B]
        else:
            B = type(str("FreshBase"), (st.parts.AbstractPart, base), {"cutter": st.enzyme(enzyme)})
            keep = [B, type(str("Early"), (B,), {"signature": ("ATGC", "ATTC")})]
            from .rblock import concrete_instance

            G0 = generic_class(st, role, enzyme)
            other = st.record.CircularRecord(st.Seq(concrete_instance(G0.structure(), n)), id="other")
            try:
                B.characterize(other)
            except RuntimeError:
                pass
            keep.append(type(str("Late"), (B,), {"signature": ("AATG", "NNNN")}))
        ctx.keep = keep
    else:
        role, enzyme = P["role"], P["enzyme"]
        B = concrete_family(st, role, enzyme) if P.get("concrete_base") else user_family(st, role, enzyme)
    G = generic_class(st, role, enzyme)
    r = ctx.mk.seq("r", n, "ACGT")
    unique_at_zero(ctx, G.structure(), r, n)
    data = r
    if "lo" in P:
        # the same plasmid filed at another origin (the structure, a site or an overhang may straddle it)
        from .c01 import rot

        data = rot(r, P["lo"] + ctx.mk.pick("rho", P["hi"] - P["lo"]))
    rec = st.record.CircularRecord(st.Seq(data), id="rec")
    cands = list(B.__subclasses__())
    if not is_abstract(B):
        cands.append(B)
    try:
        ent = B.characterize(rec)
        raised = False
    except RuntimeError:
        raised = True
        ent = None
    ctx.observe("result", None if ent is None else type(ent).__name__)
    accepting = [c for c in cands if c(rec).is_valid()]
    ctx.witness("none-accepts" if not accepting else "some-accepts")
    if raised:
        ctx.require(not accepting, "characterize-failed-although-%s-accepts" % (accepting[0].__name__ if accepting else ""))
    else:
        ctx.require(type(ent) in cands, "characterize-returned-a-non-candidate")
        ctx.require(ent.is_valid() is True, "characterize-returned-a-type-that-rejects-the-record")
        ctx.require(ent.record is rec, "characterize-wrapped-another-record")
    return True


_FAM = {}


def user_family(st, role, enzyme):
    key = (st.kind, role, enzyme)
    B = _FAM.get(key)
    if B is None:
        base = st.modules.Entry if role == "module" else st.vectors.EntryVector
        B = type(str("FamilyBase_%s_%s" % (role, enzyme)), (st.parts.AbstractPart, base), {"cutter": st.enzyme(enzyme)})
        B._kept_subclasses = [type(str("Family%d_%s_%s" % (i, role, enzyme)), (B,), {"signature": sig})
                              for i, sig in enumerate([("ATGC", "ATTC"), ("ATTC", "NNGG"), ("RYSW", "ATGC")])]
        _FAM[key] = B
    return B


def concrete_family(st, role, enzyme):
    """a concrete signature-typed class refined by narrower user subtypes (characterize must try the class itself too)"""
    key = (st.kind, role, enzyme, "concrete")
    B = _FAM.get(key)
    if B is None:
        base = st.modules.Entry if role == "module" else st.vectors.EntryVector
        B = type(str("Broad_%s_%s" % (role, enzyme)), (st.parts.AbstractPart, base),
                 {"cutter": st.enzyme(enzyme), "signature": ("AATG", "NNNN")})
        B._kept_subclasses = [type(str("Narrow%d_%s_%s" % (i, role, enzyme)), (B,), {"signature": sig})
                              for i, sig in enumerate([("AATG", "GCTT"), ("AATG", "TTCG")])]
        _FAM[key] = B
    return B


def obligations(tier, seed):
    from symx import loader

    st = loader.real_stack()
    obs = []
    slack = tier_pick(tier, [1], [0, 1, 2])
    sigs = sig_classes(st)
    for kit, name, cls, role in sigs:
        F = fixed_letters(cls.structure())
        for s in slack:
            obs.append(Ob("part %s.%s %s n=%d" % (kit, name, cls.signature, F + s), ob_part,
                          dict(src="kit", kit=kit, cls=name, n=F + s), samples=4, cost=(F + s) ** 3,
                          group="part %s.%s" % (kit, name)))
    enzymes = tier_pick(tier, ["BsaI"], ["BsaI", "BbsI", "SapI"])
    usigs = USER_SIGS[:6] if tier == "quick" else USER_SIGS
    for e in enzymes:
        ovl = Geometry(st.enzyme(e)).ovl
        for si, sig in enumerate(usigs):
            sig = (sig[0][:ovl], sig[1][:ovl])
            for role in ("module", "vector"):
                if tier == "quick" and (si + (role == "vector")) % 2:
                    continue
                K = user_class(st, role, e, sig)
                F = fixed_letters(K.structure())
                for s in slack:
                    obs.append(Ob("user part %s over %s sig=%s/%s n=%d" % (role, e, sig[0], sig[1], F + s), ob_part,
                                  dict(src="user", role=role, enzyme=e, sig=list(sig), n=F + s), samples=4,
                                  cost=(F + s) ** 3, group="user %s %s %s" % (role, e, sig)))
    # user signatures spelled in lower or mixed case (unambiguous letters): DNA is case-insensitive, the part type must
    # still accept exactly the records whose overhangs are those letters
    for sig, roles in ((("ttca", "ggat"), ("module",) if tier == "quick" else ("module", "vector")),
                       (("CCta", "TAgg"), ("vector",) if tier == "quick" else ("module", "vector"))):
        for e in enzymes:
            ovl = Geometry(st.enzyme(e)).ovl
            csig = (sig[0][:ovl], sig[1][:ovl])
            for role in roles:
                K = user_class(st, role, e, csig)
                F = fixed_letters(K.structure())
                obs.append(Ob("user part %s over %s (case-spelled signature) sig=%s/%s n=%d" % (role, e, csig[0], csig[1], F + 1),
                              ob_part, dict(src="user", role=role, enzyme=e, sig=list(csig), n=F + 1), samples=4,
                              cost=(F + 1) ** 3, group="user %s %s %s" % (role, e, csig)))
    # cutters whose recognition site carries ambiguity codes (5' and 3' overhangs)
    for e, role in ([("AspBHI", "module"), ("TsoI", "vector")] if tier == "quick" else
                    [("AspBHI", "module"), ("AspBHI", "vector"), ("TsoI", "module"), ("TsoI", "vector"), ("LpnPI", "module"),
                     ("Eco57MI", "module")]):
        ovl = Geometry(st.enzyme(e)).ovl
        for sig in [("NNNN", "ACGT"), ("RYSW", "NNNN")][: 1 if tier == "quick" else 2]:
            sig = (sig[0][:ovl], sig[1][:ovl])
            K = user_class(st, role, e, sig)
            F = fixed_letters(K.structure())
            obs.append(Ob("user part %s over %s (ambiguous site) sig=%s/%s n=%d" % (role, e, sig[0], sig[1], F + 1), ob_part,
                          dict(src="user", role=role, enzyme=e, sig=list(sig), n=F + 1), samples=4, cost=(F + 1) ** 3,
                          group="user %s %s %s" % (role, e, sig)))
    for role in ("module", "vector"):
        B = user_family(st, role, "BsaI")
        F = fixed_letters(generic_class(st, role, "BsaI").structure())
        obs.append(Ob("characterize user family %s n=%d" % (role, F + 1), ob_characterize,
                      dict(src="user", role=role, enzyme="BsaI", n=F + 1), samples=4, cost=4 * (F + 1) ** 3,
                      expect_witness=("none-accepts", "some-accepts")))
    for role in (["module"] if tier == "quick" else ["module", "vector"]):
        F = fixed_letters(generic_class(st, role, "BsaI").structure())
        obs.append(Ob("characterize concrete class with narrower subtypes %s n=%d" % (role, F + 1), ob_characterize,
                      dict(src="user", role=role, enzyme="BsaI", n=F + 1, concrete_base=True), samples=4, cost=4 * (F + 1) ** 3,
                      expect_witness=("none-accepts", "some-accepts")))
    n = fixed_letters(generic_class(st, "module", "BsaI").structure()) + 1
    step = (n + 3) // 4
    for lo in range(0, n, step):
        hi = min(n, lo + step)
        obs.append(Ob("characterize user family module n=%d filed at origin %d..%d" % (n, lo, hi - 1), ob_characterize,
                      dict(src="user", role="module", enzyme="BsaI", n=n, lo=lo, hi=hi), samples=4, cost=4 * n ** 3,
                      group="characterize at every origin"))
    for fresh in ("leaf", "late"):
        role = "module"
        F = fixed_letters(generic_class(st, role, "BsaI").structure())
        obs.append(Ob("characterize %s n=%d" % ("a concrete leaf type nobody used before" if fresh == "leaf" else
                                              "a family that gained a member after its first use", F + 1), ob_characterize,
                      dict(src="user", role=role, enzyme="BsaI", n=F + 1, fresh=fresh), samples=4, cost=3 * (F + 1) ** 3,
                      expect_witness=("none-accepts", "some-accepts"), group="history"))
    bases = [("cidar", "CIDARPart")] if tier == "quick" else [("cidar", "CIDARPart"), ("ecoflex", "EcoFlexPart"),
                                                               ("ytk", "YTKPart"), ("moclo", "MoCloPart"), ("plant", "PlantPart")]
    for kit, name in bases:
        try:
            B = kit_class(st, kit, name)
        except AttributeError:
            continue
        role = role_of(st, B)
        F = fixed_letters(generic_class(st, role, str(B.cutter)).structure())
        obs.append(Ob("characterize %s.%s n=%d" % (kit, name, F + 1), ob_characterize,
                      dict(src="kit", kit=kit, cls=name, n=F + 1), samples=4, cost=10 * (F + 1) ** 3))
    return obs
