# SMT model of CPython's `re` for the pattern fragment moclo produces: literals, character sets,
# (?i), capture groups (nested), and "wildcard runs" X*, X*?, X+, X?, X{m,n} of a single letter
# class.  On concrete strings everything is delegated to the real `re`; the model only steps in
# when the subject is a symbolic sequence.  It encodes CPython's behaviour (backtracking order =
# lexicographic preference on run lengths), not moclo's, and is validated against `re` by
# symx.validate on every run.
import re as real_re

import z3

from ..core import (SSeq, SInt, SLetter, S, Unsupported, And, Or, Not, If, mkint, mkbool, tz, tb, code_of)

try:
    import re._parser as sre_parse
    import re._constants as sre_c
except ImportError:  # pragma: no cover
    import sre_parse
    import sre_constants as sre_c

MAX_RUNS = 4


class _Cls:
    """a letter class: set of codes, possibly negated"""
    __slots__ = ("codes", "neg")

    def __init__(self, codes, neg=False):
        self.codes = frozenset(codes)
        self.neg = neg

    def key(self):
        return (self.neg, self.codes)


def _chars_to_cls(chars, icase, neg=False):
    s = set()
    for c in chars:
        for cc in ({c.upper(), c.lower(), c} if icase else {c}):
            s.add(code_of(cc))
    return _Cls(s, neg)


def _cls_of(op, av, icase):
    if op is sre_c.LITERAL:
        return _chars_to_cls([chr(av)], icase)
    if op is sre_c.NOT_LITERAL:
        return _chars_to_cls([chr(av)], icase, neg=True)
    if op is sre_c.ANY:
        return _Cls([code_of("\n")], neg=True)
    if op is sre_c.IN:
        chars = []
        neg = False
        for o, a in av:
            if o is sre_c.LITERAL:
                chars.append(chr(a))
            elif o is sre_c.RANGE:
                chars.extend(chr(x) for x in range(a[0], a[1] + 1))
            elif o is sre_c.NEGATE:
                neg = True
            else:
                raise NotImplementedError("set item %s" % (o,))
        return _chars_to_cls(chars, icase, neg)
    raise NotImplementedError("item %s" % (op,))


def flatten(pattern, flags=0):
    """-> (items, ngroups); items: ('set', cls) | ('run', cls, hi|None, greedy) | ('open', g) | ('close', g)"""
    tree = sre_parse.parse(pattern, flags)
    icase = bool(tree.state.flags & real_re.IGNORECASE)
    out = []

    def walk(seq):
        for op, av in seq:
            if op in (sre_c.LITERAL, sre_c.NOT_LITERAL, sre_c.IN, sre_c.ANY):
                out.append(("set", _cls_of(op, av, icase)))
            elif op is sre_c.SUBPATTERN:
                g, add_flags, del_flags, sub = av
                if add_flags or del_flags:
                    raise NotImplementedError("scoped flags")
                if g is not None:
                    out.append(("open", g))
                walk(sub)
                if g is not None:
                    out.append(("close", g))
            elif op in (sre_c.MAX_REPEAT, sre_c.MIN_REPEAT):
                lo, hi, sub = av
                if len(sub) != 1:
                    raise NotImplementedError("repeat of a compound item")
                c = _cls_of(sub[0][0], sub[0][1], icase)
                for _ in range(lo):
                    out.append(("set", c))
                if hi is sre_c.MAXREPEAT:
                    out.append(("run", c, None, op is sre_c.MAX_REPEAT))
                elif hi > lo:
                    out.append(("run", c, hi - lo, op is sre_c.MAX_REPEAT))
            else:
                raise NotImplementedError("regex construct %s" % (op,))

    walk(tree)
    return out, tree.state.groups


# ------------------------------------------------------------------------------------------------
_ATOM = {}


def in_cls(e, cls):
    """membership of a letter code (int | SInt) in a class -> python bool | z3 Bool"""
    if isinstance(e, int):
        return (e in cls.codes) != cls.neg
    if isinstance(e, SLetter):
        low = {c for c in cls.codes if c < 8}
        if all(((c + 4) % 8) in low for c in low):
            # class closed under case on ACGT/acgt: membership depends on the base only
            bases = sorted({c % 4 for c in low})
            b = e.base
            if isinstance(b, int):
                return (b in bases) != cls.neg
            return in_cls(b, _Cls(bases, cls.neg))
    ze = e.e
    k = (ze.get_id(), cls.key())
    r = _ATOM.get(k)
    if r is None:
        codes = sorted(cls.codes)
        if not codes:
            f = z3.BoolVal(False)
        elif len(codes) == 1:
            f = ze == codes[0]
        else:
            f = z3.Or([ze == c for c in codes])
        if cls.neg:
            f = z3.Not(f)
        _ATOM[k] = (f, ze)
        return f
    return r[0]


_TABS = {}


class SymMatch(object):
    def __init__(self, data, spans, pattern, pos, endpos):
        self.string = data
        self.spans = spans
        self.re = pattern
        self.pos = pos
        self.endpos = endpos

    def span(self, g=0):
        g = self._g(g)
        return self.spans[g]

    def start(self, g=0):
        return self.span(g)[0]

    def end(self, g=0):
        return self.span(g)[1]

    def _g(self, g):
        if isinstance(g, str):
            g = self.re.groupindex[g]
        if g not in self.spans:
            raise IndexError("no such group")
        return g

    def group(self, *gs):
        if not gs:
            gs = (0,)
        out = []
        for g in gs:
            a, b = self.span(g)
            out.append(self.string[a:b])
        return out[0] if len(out) == 1 else tuple(out)

    def groups(self, default=None):
        return tuple(self.group(g) for g in range(1, self.re.groups + 1))

    def __getitem__(self, g):
        return self.group(g)

    def __bool__(self):
        return True


class SymPattern(object):
    def __init__(self, pattern, flags=0):
        self.real = real_re.compile(pattern, flags)  # re.error surfaces exactly as in production
        self.pattern = pattern
        self.flags = self.real.flags
        self.groups = self.real.groups
        self.groupindex = dict(self.real.groupindex)
        self.items = None
        self.why = None
        try:
            self.items, self.ngroups = flatten(pattern, flags)
        except NotImplementedError as e:
            self.why = str(e)
            return
        # segments: fixed_0 run_1 fixed_1 ... run_r fixed_r
        self.segs = [[]]
        self.runs = []
        for it in self.items:
            if it[0] == "set":
                self.segs[-1].append(it[1])
            elif it[0] == "run":
                self.runs.append(it)
                self.segs.append([])
        self.fixed = sum(len(s) for s in self.segs)
        if len(self.runs) > MAX_RUNS:
            self.why = "more than %d wildcard runs" % MAX_RUNS
            self.items = None

    # concrete delegation --------------------------------------------------------------------
    def _concrete(self, name, string, *a, **kw):
        return getattr(self.real, name)(string, *a, **kw)

    def search(self, string, pos=0, endpos=None):
        if isinstance(string, str):
            if endpos is None:
                return self.real.search(string, pos)
            return self.real.search(string, pos, endpos)
        # unanchored search = the first start position (left to right) at which an anchored match exists
        sp = S()
        if isinstance(pos, SInt):
            pos = sp.realize(pos)
        i = max(pos, 0)
        while i <= string.maxlen:
            if not (i <= string.n):
                break
            m = self.match(string, i, endpos)
            if m is not None:
                return m
            i += 1
        return None

    def fullmatch(self, string, *a, **kw):
        if isinstance(string, str):
            return self._concrete("fullmatch", string, *a, **kw)
        raise Unsupported("re.fullmatch on a symbolic string")

    def finditer(self, string, pos=0, endpos=None):
        if isinstance(string, str):
            if endpos is None:
                return self.real.finditer(string, pos)
            return self.real.finditer(string, pos, endpos)
        return self._finditer(string, pos, endpos)

    def _finditer(self, string, pos, endpos):
        # CPython's scanner: successive non-overlapping matches, each the first anchored match at or after the end of
        # the previous one (an empty match advances by one letter)
        sp = S()
        if isinstance(pos, SInt):
            pos = sp.realize(pos)
        i = max(pos, 0)
        while i <= string.maxlen:
            if not (i <= string.n):
                break
            m = self.match(string, i, endpos)
            if m is None:
                i += 1
                continue
            yield m
            e = m.end()
            if isinstance(e, SInt):
                e = sp.realize(e)
            i = e if e > i else i + 1

    def findall(self, string, pos=0, endpos=None):
        if isinstance(string, str):
            if endpos is None:
                return self.real.findall(string, pos)
            return self.real.findall(string, pos, endpos)
        out = []
        for m in self._finditer(string, pos, endpos):
            if self.groups == 0:
                out.append(m.group(0))
            elif self.groups == 1:
                out.append(m.group(1))
            else:
                out.append(m.groups())
        return out

    def sub(self, repl, string, *a, **kw):
        if isinstance(string, str):
            return self._concrete("sub", repl, string, *a, **kw)
        raise Unsupported("re.sub on a symbolic string")

    def split(self, string, *a, **kw):
        if isinstance(string, str):
            return self._concrete("split", string, *a, **kw)
        raise Unsupported("re.split on a symbolic string")

    # symbolic match -------------------------------------------------------------------------
    def tables(self, data):
        c = getattr(self, "_tab", None)
        if c is not None and c[0] is data:
            return c[1]
        M = data.maxlen
        letters = [data.get(j) for j in range(M)]
        gkey = (self.pattern, self.flags,
                tuple(("c", l) if isinstance(l, int) else ("z", l.e.get_id()) for l in letters))
        g = _TABS.get(gkey)
        if g is None:
            tab = dict(letters=letters, seg={}, run={}, vc={})
            _TABS[gkey] = g = (tab, letters)
        self._tab = (data, g[0])
        return g[0]

    def _seg_ok(self, tab, k, j):
        """fixed segment k matches at concrete position j"""
        key = (k, j)
        r = tab["seg"].get(key)
        if r is None:
            L = tab["letters"]
            seg = self.segs[k]
            if j + len(seg) > len(L):
                r = False
            else:
                r = And([in_cls(L[j + q], c) for q, c in enumerate(seg)])
            tab["seg"][key] = r
        return r

    def _run_ok(self, tab, k, j, t):
        """run k covers letters [j, j+t) (all in its class)"""
        if t == 0:
            return True
        key = (k, j, t)
        r = tab["run"].get(key)
        if r is None:
            L = tab["letters"]
            if j + t > len(L):
                r = False
            else:
                r = And(self._run_ok(tab, k, j, t - 1), in_cls(L[j + t - 1], self.runs[k][1]))
            tab["run"][key] = r
        return r

    def valid(self, data, i, ts, end):
        """pattern matches at concrete i with concrete run lengths ts, ending <= end"""
        tab = self.tables(data)
        tot = i + self.fixed + sum(ts)
        if tot > data.maxlen:
            return False
        key = (i, tuple(ts))
        core = tab["vc"].get(key)
        if core is None:
            cs = []
            j = i
            for k, seg in enumerate(self.segs):
                cs.append(self._seg_ok(tab, k, j))
                j += len(seg)
                if k < len(self.runs):
                    cs.append(self._run_ok(tab, k, j, ts[k]))
                    j += ts[k]
            core = And(cs)
            tab["vc"][key] = core
        return And(tot <= end, core)

    def _vectors(self, i, end_ub):
        """run-length vectors in CPython preference order, statically pruned by end_ub"""
        room = end_ub - self.fixed - i
        if room < 0:
            return []

        def rec(k, left):
            if k == len(self.runs):
                yield ()
                return
            _, _, hi, greedy = self.runs[k]
            top = left if hi is None else min(left, hi)
            rng = range(top, -1, -1) if greedy else range(0, top + 1)
            for t in rng:
                for rest in rec(k + 1, left - t):
                    yield (t,) + rest

        return list(rec(0, room))

    def match(self, data, pos=0, endpos=None):
        if isinstance(data, str):
            if endpos is None:
                return self.real.match(data, pos)
            return self.real.match(data, pos, endpos)
        if not isinstance(data, SSeq):
            raise TypeError("expected string or bytes-like object")
        if self.items is None:
            raise Unsupported("regex pattern outside the modelled fragment: %s (%s)" % (self.pattern, self.why))
        sp = S()
        if isinstance(pos, SInt):
            pos = sp.realize(pos)
        n = data.n
        # CPython clamps: pos/endpos into [0, len]
        if pos < 0:
            pos = 0
        if endpos is None:
            end = n
        else:
            end = If(endpos > n, n, endpos)
            end = If(end < 0, 0, end)
        if isinstance(end, int):
            end_ub = min(end, data.maxlen)
        else:
            end_ub = data.maxlen
        if pos > n:
            # CPython: pos beyond the end -> only an empty pattern could match at len; treat as no match
            # for non-empty patterns
            if self.fixed > 0:
                return None
            pos = n
        i = pos
        vecs = self._vectors(i, end_ub)
        if not vecs:
            return None
        vs = [self.valid(data, i, t, end) for t in vecs]
        if not sp.fork(Or(vs)):
            return None
        tvars = []
        if self.runs:
            # the first valid vector in preference order
            live = [(t, v) for t, v in zip(vecs, vs) if v is not False]
            for k in range(len(self.runs)):
                e = z3.IntVal(live[-1][0][k])
                for t, v in reversed(live[:-1]):
                    e = z3.If(tb(v), z3.IntVal(t[k]), e)
                e = z3.simplify(e)
                if z3.is_int_value(e):
                    tvars.append(e.as_long())
                else:
                    tv = sp.var("t")
                    sp.add(tv == e)
                    tvars.append(SInt(tv))
        spans = {}
        off = i
        opens = {}
        k = 0
        for it in self.items:
            if it[0] == "set":
                off = off + 1
            elif it[0] == "run":
                off = off + tvars[k]
                k += 1
            elif it[0] == "open":
                opens[it[1]] = off
            elif it[0] == "close":
                spans[it[1]] = (opens[it[1]], off)
        spans[0] = (i, off)
        return SymMatch(data, spans, self, pos, endpos)


class _ReModule(object):
    """stands in for the `re` module inside symbolically loaded code"""

    def __init__(self):
        self._cache = {}

    def compile(self, pattern, flags=0):
        if isinstance(pattern, SymPattern):
            return pattern
        key = (pattern, int(flags))
        p = self._cache.get(key)
        if p is None:
            p = SymPattern(pattern, flags)
            self._cache[key] = p
        return p

    def match(self, pattern, string, flags=0):
        return self.compile(pattern, flags).match(string)

    def search(self, pattern, string, flags=0):
        return self.compile(pattern, flags).search(string)

    def fullmatch(self, pattern, string, flags=0):
        return self.compile(pattern, flags).fullmatch(string)

    def sub(self, pattern, repl, string, count=0, flags=0):
        return self.compile(pattern, flags).sub(repl, string, count)

    def findall(self, pattern, string, flags=0):
        return self.compile(pattern, flags).findall(string)

    def finditer(self, pattern, string, flags=0):
        return self.compile(pattern, flags).finditer(string)

    def split(self, pattern, string, maxsplit=0, flags=0):
        return self.compile(pattern, flags).split(string, maxsplit)

    def escape(self, s):
        return real_re.escape(s)

    def __getattr__(self, name):
        return getattr(real_re, name)


re_module = _ReModule()
