#!/usr/bin/env python3
"""Self-test of the symx path manager: for random small branching programs over bounded integers and short sequences,
the explored paths must partition the input domain (every concrete input satisfies exactly one path condition) and the
symbolic result on that path must equal the concrete result.  Run with /verif/.venv/bin/python tools/selftest_engine.py"""
import itertools, os, random, sys
sys.path.insert(0, os.path.dirname(os.path.dirname(os.path.abspath(__file__))))
import z3
from symx.core import Space, explore, SInt, SSeq, mkint, If, And, Or, Not, Eq, ALPHABETS, char_of

rng = random.Random(int(sys.argv[1]) if len(sys.argv) > 1 else 0)
D = 5


def make_program(depth):
    """random program tree over x, y (ints 0..D-1), k (any int) and s (sequence of 3 letters)"""
    conds = [lambda x, y, k, s: (x + y) % 3 == 1, lambda x, y, k, s: x < y, lambda x, y, k, s: k % 4 == x % 4,
             lambda x, y, k, s: s[x % 3] == s[y % 3], lambda x, y, k, s: (k // 3) % 2 == 0, lambda x, y, k, s: x * 2 > y + 1,
             lambda x, y, k, s: s[:2] == s[1:], lambda x, y, k, s: -k % 5 >= 2, lambda x, y, k, s: s[(k % 3):] + s[:(k % 3)] == s,
             lambda x, y, k, s: (1, 3, 0, 2, 4)[x] > y,  # __index__: realisation by forking over the feasible values
             lambda x, y, k, s: len("ab" * (y % 3)) == x % 4]
    def build(d):
        if d == 0:
            a, b, c = rng.randint(-3, 3), rng.randint(-3, 3), rng.randint(-3, 3)
            return ("leaf", a, b, c)
        return ("if", rng.choice(conds), build(d - 1), build(d - 1))
    return build(depth)


def run(prog, x, y, k, s):
    while prog[0] == "if":
        prog = prog[2] if prog[1](x, y, k, s) else prog[3]
    _, a, b, c = prog
    return a * x + b * y + c * (k % 7)


def main():
    bad = 0
    total_paths = 0
    for trial in range(int(sys.argv[2]) if len(sys.argv) > 2 else 40):
        prog = make_program(rng.randint(2, 4))
        paths = []

        def harness(sp):
            x, y, k = z3.Int("x"), z3.Int("y"), z3.Int("k")
            sp.add(x >= 0, x < D, y >= 0, y < D)
            s = SSeq.fresh(sp, "s", 3, codes=ALPHABETS["ACGT"][:2])
            res = run(prog, SInt(x), SInt(y), SInt(k), s)
            paths.append((z3.And(sp.solver.assertions()), res.e if isinstance(res, SInt) else z3.IntVal(res)))
            return True

        explore(harness, lambda r: False)
        total_paths += len(paths)
        f = z3.Function("s", z3.IntSort(), z3.IntSort())
        for x, y in itertools.product(range(D), repeat=2):
            for k in (-9, -4, -1, 0, 2, 7, 13, 100):
                for letters in itertools.product((0, 1), repeat=3):
                    s = "".join(char_of(c) for c in letters)
                    want = run(prog, x, y, k, s)
                    subst = [(z3.Int("x"), z3.IntVal(x)), (z3.Int("y"), z3.IntVal(y)), (z3.Int("k"), z3.IntVal(k))]
                    hits = []
                    for pc, res in paths:
                        sol = z3.Solver()
                        sol.add(z3.substitute(pc, *subst), *[f(j) == letters[j] for j in range(3)])
                        if sol.check() == z3.sat:
                            sol.add(z3.substitute(res, *subst) != want)
                            hits.append(sol.check() == z3.unsat)
                    if len(hits) != 1 or not hits[0]:
                        bad += 1
                        if bad < 5:
                            print("MISMATCH trial", trial, (x, y, k, s), "paths hit:", hits)
    print("paths=%d mismatches=%d" % (total_paths, bad))
    return 1 if bad else 0


if __name__ == "__main__":
    sys.exit(main())
