# Building block R: one record through the real typing code (StructuredRecord, AbstractModule /
# AbstractVector / AbstractPart, DNARegex.search, SeqMatch.group, target_sequence ...) with symbolic
# content, plus the restriction-geometry oracle used by C01/C02/C04/C05/C11/C12/C17/C18.
import inspect

from .common import *

_CATALOG = {}


def is_abstract(c):
    """the harness's own notion of an unusable class: abstract methods left, or a NotImplemented cutter/signature
    placeholder (independent of moclo._utils.isabstract, which is code under test)"""
    if inspect.isabstract(c):
        return True
    return any(getattr(c, a, None) is NotImplemented for a in ("cutter", "signature"))


def catalog(st):
    """[(kit, name, cls, role, pattern)] for every concrete module/vector class of the five kits,
    enumerated from the stack's own module objects (i.e. from /repo's current source)"""
    c = _CATALOG.get(st.kind)
    if c is not None:
        return c
    out = []
    import inspect as _inspect

    def isabstract(c):
        # the harness's own notion of a usable class (independent of moclo._utils.isabstract, which is code under test)
        if _inspect.isabstract(c):
            return True
        return any(getattr(c, a, None) is NotImplemented for a in ("cutter", "signature"))

    from symx.loader import KITS

    for kit in KITS:
        try:
            m = st.kit(kit)
        except Exception:
            continue
        for name, c in vars(m).items():
            if not inspect.isclass(c) or c.__module__ != m.__name__:
                continue
            if issubclass(c, st.modules.AbstractModule):
                role = "module"
            elif issubclass(c, st.vectors.AbstractVector):
                role = "vector"
            else:
                continue
            try:
                if isabstract(c):
                    continue
                pat = c.structure()
            except Exception:
                continue
            out.append((kit, name, c, role, pat))
    _CATALOG[st.kind] = out
    return out


def kit_class(st, kit, name):
    return getattr(st.kit(kit), name)


_GEN = {}


def generic_class(st, role, enzyme):
    key = (st.kind, role, enzyme)
    c = _GEN.get(key)
    if c is None:
        base = st.modules.AbstractModule if role == "module" else st.vectors.AbstractVector
        c = type(str("Generic%s_%s" % (role.capitalize(), enzyme)), (base,), {"cutter": st.enzyme(enzyme)})
        _GEN[key] = c
    return c


def get_class(st, P):
    if P["src"] == "kit":
        return kit_class(st, P["kit"], P["cls"])
    return generic_class(st, P["role"], P["enzyme"])


def role_of(st, cls):
    return "module" if issubclass(cls, st.modules.AbstractModule) else "vector"


class Geometry(object):
    """where an enzyme's single-stranded end lies relative to its recognition site"""

    def __init__(self, enz):
        real = getattr(enz, "real", enz)
        self.name = str(real)
        self.site = real.site
        self.L = len(real.site)
        a, b = real.fst5, real.fst5 - real.ovhg
        self.lo, self.hi = min(a, b), max(a, b)
        self.ovl = self.hi - self.lo
        self.five = real.is_5overhang()
        import Bio.Seq

        self.rsite = str(Bio.Seq.Seq(self.site).reverse_complement())

    def key(self):
        return (self.L, self.lo - self.L, self.ovl, self.five)


def geometries():
    """{geometry key: [enzyme names]} for single-cut, non-palindromic, unambiguous-site, downstream-cutting,
    5'-overhang enzymes of the installed Bio.Restriction (C01's configuration space)"""
    import Bio.Restriction as R

    out = {}
    for e in R.AllEnzymes:
        try:
            if not e.cut_once() or e.is_palindromic() or not e.is_5overhang():
                continue
            if any(c not in "ACGT" for c in e.site):
                continue
            g = Geometry(e)
            if g.lo < g.L:  # cuts inside or upstream of the site
                continue
            out.setdefault(g.key(), []).append(str(e))
        except Exception:
            continue
    for k in out:
        out[k].sort()
    return out


_IUPAC = {}


def _allowed(ch):
    if not _IUPAC:
        from Bio.Data import IUPACData

        _IUPAC.update({k: sorted(v) for k, v in IUPACData.ambiguous_dna_values.items()})
    return _IUPAC[ch]


def _letters_at(r, n, start, word, hint=None):
    """word (a recognition site, possibly with IUPAC ambiguity codes; N = any letter, as in Bio.Restriction) occurs on
    the circle r (concrete length n) starting at concrete position start (case-insensitive)"""
    cs = []
    for j, ch in enumerate(word):
        if ch == "N":
            continue
        u = supper_code(sat(r, (start + j) % n), hint)
        if ch in "ACGT":
            cs.append(Eq(u, code_of(ch)))
        else:
            cs.append(Or([Eq(u, code_of(c)) for c in _allowed(ch)]))
    return And(cs)


def is_cut(r, n, c, g):
    """c (int | SInt) is the first letter of a single-stranded end left by the enzyme somewhere on circle r"""
    hint = getattr(sdata(r), "hint", None)

    def at(p):
        return Or(_letters_at(r, n, p - g.lo, g.site, hint), _letters_at(r, n, p - g.L + g.hi, g.rsite, hint))

    if isinstance(c, int):
        return at(c % n)
    cm = mod(c, n)
    return Or([And(Eq(cm, p), at(p)) for p in range(n)])


def circ_read(r, n, c, ln, maxlen):
    """list of (guard, code): letter j of the circular read of r from c (int|SInt), for j < ln"""
    return [(j < ln, circ(r, c + j, n)) for j in range(maxlen)]


def equals_circ(x, r, n, c, ln, maxlen=None):
    """sequence x equals the circular read r[c .. c+ln)"""
    d = sdata(x)
    if maxlen is None:
        maxlen = ln if isinstance(ln, int) else n
    cs = [Eq(slen(d), ln)]
    for j in range(maxlen):
        cs.append(Implies(j < ln, Eq(sat(d, j), circ(r, c + j, n))))
    return And(cs)


def sites_flank(pattern, g):
    """True when the cutter's recognition site lies outside capture group 2 of the structure"""
    depth = 0
    gi = 0
    inside = ""
    outside = ""
    cur = 0
    for ch in pattern:
        if ch == "(":
            gi += 1
            cur = gi
            continue
        if ch == ")":
            cur = 0
            continue
        if cur == 2:
            inside += ch
        else:
            outside += ch
    return (g.site in outside or g.rsite in outside) and not (g.site in inside or g.rsite in inside)


def fixed_letters(pattern):
    from symx.models.re_model import SymPattern
    from .c16 import oracle_regex

    return SymPattern(oracle_regex(pattern)).fixed


def concrete_instance(pattern, n):
    """a concrete word of length n read by the structure pattern from its first letter (wildcard runs padded)"""
    body = [ch for ch in pattern if ch not in "()"]
    fixed = sum(1 for i, ch in enumerate(body) if ch != "*" and not (i + 1 < len(body) and body[i + 1] == "*"))
    pad = n - fixed
    out, cnt = [], 0
    i = 0
    while i < len(body):
        ch = body[i]
        star = i + 1 < len(body) and body[i + 1] == "*"
        reps = 1
        if star:
            reps, pad = max(pad, 0), 0
            i += 1
        for _ in range(reps):
            if ch in "ACGT":
                out.append(ch)
            else:
                allowed = _allowed(ch)
                out.append(allowed[cnt % len(allowed)])
                cnt += 1
        i += 1
    return "".join(out)
