# C15 - a circular record behaves as a circle, never as a line.
# Code executed symbolically: CircularRecord.__contains__, __add__/__radd__ (_ambiguous), __init__,
# __getitem__, __rshift__ (moclo/moclo/record.py).
from .common import *

ID = "C15"
LEVEL_TEXT = ("Bounded verification by symbolic execution of the real CircularRecord code: membership of a symbolic query "
              "(symbolic length and letters) in a symbolic record equals 'occurs in some rotation and is no longer than the "
              "record' and is invariant under rotation by any integer; + and += are refused for every operand kind; wrapping is "
              "refused exactly for non-circular topology strings (symbolic string with symbolic case); slices r[a:b] for "
              "symbolic integers a,b (or None) are linear SeqRecords equal to the Python slice; wrapping shares no mutable "
              "container with the original.  Bounded claim.")
LEVEL_NOTE = ("Bounds: n<=9 quick / n<=12 thorough for membership (query length 0..n+2), n<=8/12 for slices, topology strings of "
              "length <=8 over the letters of 'circular'/'linear' in both cases plus one foreign letter. Trusted: z3, CPython, "
              "symx models of Bio.Seq/SeqRecord (validated against Biopython on every run).")
LEVEL_NOTE_EXTRA = 'Also: membership and slices of a record that was used before and edited in place; slices with a step (case family).'
TECHNIQUE = "bounded symbolic execution of the real Python source (symx) with z3; some-rotation oracle; replay on the real stack"
EXPLANATION = ("symbolic execution of record.py's __contains__, _ambiguous wrappers, __init__ topology check, __getitem__ and "
               "__rshift__ on symbolic records, queries, slice bounds and topology strings; z3 decides each assertion")
ASSUMPTIONS = [
    "letters over ACGT; record length case-split; query length symbolic in 0..n+2",
    "slice bounds are arbitrary integers or None, step None",
    "topology strings range over words of length <= 8 over {c,i,r,u,l,a,n,e,x} in both cases",
    "Bio.Seq/SeqRecord replaced by validated models",
]


def bounds(tier):
    return dict(membership_n_max=tier_pick(tier, 9, 12), slice_n_max=tier_pick(tier, 8, 12), topology_len_max=8)


def _occurs(q, qn, r, n):
    """q (length qn <= n) occurs in some rotation of r"""
    alts = []
    for p in range(n):
        alts.append(And([Implies(j < qn, Eq(sat(q, j), sat(r, (p + j) % n))) for j in range(min(n, _maxlen(q)))]))
    return And(qn <= n, Or(alts) if alts else False)


def _maxlen(q):
    return q.maxlen if isinstance(q, SSeq) else len(q)


def ob_member(ctx):
    st = ctx.stack
    n = ctx.P["n"]
    r = ctx.mk.seq("r", n, "ACGT")
    qn = ctx.mk.int("qn", 0, n + 2)
    q = ctx.mk.seq("q", qn, "ACGT", maxlen=n + 2)
    from .c13 import _rotation_amount

    k = _rotation_amount(ctx, "k", n)
    if ctx.P.get("history"):
        # the same record object held other letters before and was already asked about the same query
        r0 = ctx.mk.seq("r0", n, "ACGT")
        rec = st.record.CircularRecord(st.Seq(r0), id="x")
        q in rec
        rec.seq = st.Seq(r)
    else:
        rec = st.record.CircularRecord(st.Seq(r), id="x")
    got = q in rec
    ctx.observe("in", got)
    want = _occurs(q, qn, r, n)
    ctx.require(Iff(got, want), "membership-vs-some-rotation")
    got2 = q in (rec >> k)
    ctx.require(Iff(got2, want), "membership-after-rotation")
    ctx.witness("member", got is True)
    ctx.witness("longer-than-record", qn > n)
    ctx.witness("empty-query", Eq(qn, 0))
    ctx.witness("whole-turn", Eq(qn, n))
    return True


def ob_add(ctx):
    st = ctx.stack
    n = ctx.P["n"]
    r = ctx.mk.seq("r", n, "ACGT")
    x = ctx.mk.seq("x", 2, "ACGT")
    rec = st.record.CircularRecord(st.Seq(r), id="x")
    others = [x, st.Seq(x), st.SeqRecord(st.Seq(x), id="y"), st.record.CircularRecord(st.Seq(x), id="z"), "", rec]
    for i, o in enumerate(others):
        for side in ("right", "left", "inplace"):
            try:
                if side == "right":
                    rec + o
                elif side == "left":
                    o + rec
                else:
                    tmp = rec
                    tmp += o
                ok = False
            except TypeError:
                ok = True
            ctx.require(ok, "add-not-refused:%s:%d" % (side, i))
    ctx.require(seq_eq(rec.seq, r), "record-changed-by-failed-add")
    return True


TOPO_ALPHA = sorted({code_of(c) for c in "circulane" + "CIRCULANE" + "x"})


def ob_topology(ctx):
    st = ctx.stack
    P = ctx.P
    r = ctx.mk.seq("r", 3, "ACGT")
    tl = ctx.mk.int("tl", 0, 8)
    t = ctx.mk.seq("topo", tl, TOPO_ALPHA, maxlen=8)
    word = "circular"
    is_circ = And(Eq(tl, 8), And([Or(Eq(sat(t, j), code_of(word[j])), Eq(sat(t, j), code_of(word[j].upper())))
                                  for j in range(8)]))
    via = P["via"]
    raised = False
    try:
        if via == "record":
            base = st.SeqRecord(st.Seq(r), id="x", annotations={"topology": t, "other": 1})
            c = st.record.CircularRecord(base)
        else:
            c = st.record.CircularRecord(st.Seq(r), id="x", annotations={"topology": t})
    except ValueError:
        raised = True
    ctx.observe("raised", raised)
    ctx.require(Iff(raised, Not(is_circ)), "topology-check")
    ctx.witness("accepted", raised is False)
    ctx.witness("refused", raised is True)
    return True


def ob_topology_absent(ctx):
    st = ctx.stack
    r = ctx.mk.seq("r", 3, "ACGT")
    c1 = st.record.CircularRecord(st.SeqRecord(st.Seq(r), id="x"))
    c2 = st.record.CircularRecord(st.Seq(r), id="x", annotations={"organism": "o"})
    c3 = st.record.CircularRecord(c1)
    ctx.require(all(isinstance(c, st.record.CircularRecord) for c in (c1, c2, c3)), "absent-topology-accepted")
    for lin in ("linear", "Linear", "", "circ"):
        try:
            st.record.CircularRecord(st.SeqRecord(st.Seq(r), id="x", annotations={"topology": lin}))
            ok = False
        except ValueError:
            ok = True
        ctx.require(ok, "linear-accepted:%s" % lin)
    return True


def _pyslice(a, b, n):
    def norm(i, default):
        if i is None:
            return default
        return If(i < 0, Max(i + n, 0), Min(i, n))

    lo, hi = norm(a, 0), norm(b, n)
    return lo, Max(hi - lo, 0)


def ob_slice(ctx):
    st = ctx.stack
    P = ctx.P
    n = P["n"]
    r = ctx.mk.seq("r", n, "ACGT")
    a = None if P["a_none"] else ctx.mk.int("a")
    b = None if P["b_none"] else ctx.mk.int("b")
    ann = {"topology": "circular", "molecule_type": "DNA"} if P["ann"] else {}
    f = build_feature(st, [(0, 1, 1)], "misc", {"q": ["v"]})
    if P.get("history"):
        # the record was sliced before with the same bounds while it held other letters, then edited in place
        r0 = ctx.mk.seq("r0", n, "ACGT")
        rec = st.record.CircularRecord(st.Seq(r0), id="rid", name="rn", features=[], annotations=dict(ann))
        rec[a:b]
        rec.seq = st.Seq(r)
        rec.features.append(f)
    else:
        rec = st.record.CircularRecord(st.Seq(r), id="rid", name="rn", features=[f], annotations=ann)
    out = rec[a:b]
    ctx.observe("out", out)
    ctx.require(isinstance(out, st.SeqRecord) and not isinstance(out, st.record.CircularRecord), "slice-type")
    lo, ln = _pyslice(a, b, n)
    d = sdata(out.seq)
    ctx.require(Eq(slen(d), ln), "slice-length")
    ctx.require(And([Implies(j < ln, Eq(sat(d, j), sat(r, lo + j))) for j in range(n)]), "slice-letters")
    topo = out.annotations.get("topology", "linear")
    ctx.require(isinstance(topo, str) and topo.lower() != "circular", "slice-claims-circular")
    ctx.require(out.id == "rid" and out.name == "rn", "slice-ids")
    # the original is untouched
    ctx.require(dict(rec.annotations) == ann and seq_eq(rec.seq, r) and len(rec.features) == 1, "slice-mutated-original")
    # integer index = letter
    i = ctx.mk.int("i", -n, n - 1)
    ch = rec[i]
    ctx.require(Eq(sat(ch, 0), sat(r, mod(i, n))), "int-index")
    ctx.witness("empty", Eq(ln, 0))
    ctx.witness("whole", Eq(ln, n))
    return True


def ob_slice_step(ctx):
    """slices with a step are linear too (and equal the Python slice of the letters)"""
    st = ctx.stack
    P = ctx.P
    n = P["n"]
    data = "ACGTTGCAAGCTAGGC"[:n]
    steps = [-1, 2, -2, 3, 1, -3]
    step = steps[ctx.mk.pick("step", len(steps))]
    a = [None, 0, 1, n - 1, -2, n + 3][ctx.mk.pick("a", 6)]
    b = [None, 0, 2, n, -1, -n - 2][ctx.mk.pick("b", 6)]
    rec = st.record.CircularRecord(st.Seq(data), id="rid", name="rn",
                                   annotations={"topology": "circular"} if P["ann"] else {})
    out = rec[a:b:step]
    ctx.observe("out", out)
    ctx.require(isinstance(out, st.SeqRecord) and not isinstance(out, st.record.CircularRecord), "slice-type")
    ctx.require(seq_eq(out.seq, data[a:b:step]), "slice-letters")
    topo = out.annotations.get("topology", "linear")
    ctx.require(isinstance(topo, str) and topo.lower() != "circular", "slice-claims-circular")
    ctx.require(seq_eq(rec.seq, data) and dict(rec.annotations) == ({"topology": "circular"} if P["ann"] else {}),
                "slice-mutated-original")
    # a linear record is not searched across its ends and can be concatenated
    ctx.require(isinstance(out + out, st.SeqRecord), "slice-cannot-be-concatenated")
    return True


def ob_copy(ctx):
    """wrapping copies: no mutable container of the wrapper is shared with the original"""
    st = ctx.stack
    n = 4
    r = ctx.mk.seq("r", n, "ACGT")
    f = build_feature(st, [(0, 2, 1), (2, 3, -1)], "CDS", {"label": ["a"], "n": ["1"]})
    base = st.SeqRecord(st.Seq(r), id="b", name="bn", description="bd", dbxrefs=["d1"], features=[f],
                        annotations={"topology": "circular", "references": ["r1"], "nested": {"k": [1]}},
                        letter_annotations={"q": ctx.mk.track("q", n)})
    c = st.record.CircularRecord(base)
    ctx.require(c.features is not base.features and c.features[0] is not base.features[0], "features-shared")
    ctx.require(c.features[0].qualifiers is not base.features[0].qualifiers
                and c.features[0].qualifiers["label"] is not base.features[0].qualifiers["label"], "qualifiers-shared")
    ctx.require(c.features[0].location is not base.features[0].location, "location-shared")
    ctx.require(c.annotations is not base.annotations and c.annotations["references"] is not base.annotations["references"]
                and c.annotations["nested"] is not base.annotations["nested"]
                and c.annotations["nested"]["k"] is not base.annotations["nested"]["k"], "annotations-shared")
    ctx.require(c.dbxrefs is not base.dbxrefs, "dbxrefs-shared")
    ctx.require(c.letter_annotations is not base.letter_annotations, "letter-annotations-shared")
    # behavioural: edit the copy, observe the original
    c.features.append(build_feature(st, [(0, 1, 1)], "x"))
    c.features[0].qualifiers["label"].append("b")
    c.features[0].qualifiers["new"] = ["z"]
    c.annotations["references"].append("r2")
    c.annotations["nested"]["k"].append(2)
    c.annotations["extra"] = 1
    c.dbxrefs.append("d2")
    c.id = "changed"
    ctx.require(len(base.features) == 1 and dict(base.features[0].qualifiers) == {"label": ["a"], "n": ["1"]},
                "edit-reached-original-features")
    ctx.require(dict(base.annotations) == {"topology": "circular", "references": ["r1"], "nested": {"k": [1]}},
                "edit-reached-original-annotations")
    ctx.require(base.dbxrefs == ["d1"] and base.id == "b", "edit-reached-original-ids")
    ctx.require(seq_eq(c.seq, r) and c.name == "bn" and c.description == "bd", "copy-content")
    ctx.require([ (ival(p[0]), ival(p[1]), p[2]) for p in parts_of(c.features[0])] == [(0, 2, 1), (2, 3, -1)], "copy-locations")
    return True


def obligations(tier, seed):
    obs = []
    for n in range(1, tier_pick(tier, 9, 12) + 1):
        obs.append(Ob("membership n=%d" % n, ob_member, dict(n=n), samples=8, cost=n ** 3))
    for n in tier_pick(tier, (4,), (3, 6)):
        obs.append(Ob("membership in a record whose sequence was replaced n=%d" % n, ob_member, dict(n=n, history=True),
                      samples=8, cost=2 * n ** 3, group="history"))
    for n in (1, 4):
        obs.append(Ob("add refused n=%d" % n, ob_add, dict(n=n), samples=2, cost=1))
    for via in ("record", "direct"):
        obs.append(Ob("topology string via %s" % via, ob_topology, dict(via=via), samples=10, cost=20,
                      fixed=[dict(r="ACG", tl=8, topo="circular"), dict(r="ACG", tl=8, topo="CIRCULAR"),
                             dict(r="ACG", tl=8, topo="CirCular"), dict(r="ACG", tl=6, topo="linear"),
                             dict(r="ACG", tl=0, topo=""), dict(r="ACG", tl=8, topo="circulax")]))
    obs.append(Ob("topology absent / concrete words", ob_topology_absent, {}, samples=2, cost=1))
    for n in range(1, tier_pick(tier, 8, 12) + 1):
        for a_none, b_none in ((False, False), (True, False), (False, True), (True, True)):
            if (a_none or b_none) and n % 3 != 1 and tier == "quick":
                continue
            obs.append(Ob("slice n=%d a=%s b=%s" % (n, "None" if a_none else "sym", "None" if b_none else "sym"),
                          ob_slice, dict(n=n, a_none=a_none, b_none=b_none, ann=bool(n % 2)), samples=8, cost=n * n))
    obs.append(Ob("slice of a record that was sliced before and edited in place n=5", ob_slice,
                  dict(n=5, a_none=False, b_none=False, ann=True, history=True), samples=8, cost=60, group="history"))
    for n, ann in ((7, True), (12, False)):
        obs.append(Ob("slices with a step n=%d" % n, ob_slice_step, dict(n=n, ann=ann), samples=12, cost=40, group="step"))
    obs.append(Ob("wrapping copies", ob_copy, {}, samples=2, cost=1))
    return obs
