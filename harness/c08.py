# C08 - annotations are inherited faithfully by the assembled plasmid.
# Code executed symbolically: AbstractModule/AbstractVector.target_sequence on pre-set *symbolic*
# match spans, CircularRecord.__lshift__/__rshift__/__getitem__, add_as_source,
# AssemblyManager._generate_assembly (concatenation) and the CircularRecord wrap of the product.
from .common import *
from .annot import *
from .wblock import stub_classes

ID = "C08"
LEVEL_TEXT = ("Bounded verification by symbolic execution of the real fragment-extraction and concatenation code with opaque "
              "position tags as letters: (A) for every record length up to the bound, every placement of the match spans "
              "(s1 <= e1 <= e2 <= e3 <= s1+n: the structure may cross the origin anywhere) and every feature of 1-2 parts with "
              "symbolic coordinates and strands, z3 shows that a feature all of whose parts lie in the retained arc has exactly "
              "one image with equal type, qualifiers, strand and part count, each part denoting the same tagged nucleotides, that "
              "every non-generated fragment feature is such an image, and that a feature meeting a discarded position has none; "
              "(B) the assembly of such fragments shifts each inherited feature by the summed length of the preceding fragments "
              "and introduces no other non-generated feature.  Bounded claim.")
LEVEL_NOTE = ("Bounds: (A) n<=10 quick / n<=16 thorough, module and vector roles, 1-2 parts; (B) chains of 1-2 modules + vector with "
              "one symbolic fragment. That real matches have spans of this shape is block R's conclusion (C04). Feature parts "
              "in the producible domain 0<=start<n, start<=end<start+n. Trusted: z3, CPython, symx models of SeqRecord/SeqFeature.")
LEVEL_NOTE_EXTRA = 'inherited source-typed input features. Also: qualifier values of several Python types; a between-bases marker strictly inside the fragment must be inherited; the same entity asked again after its map was edited in place.'
TECHNIQUE = "bounded symbolic execution of the real Python source (symx) with z3 on symbolic match spans and feature tables; position-tag letters; replay on the real stack"
EXPLANATION = ("letters are pairwise distinct position tags, so 'denotes the same nucleotides' is an arithmetic statement about "
               "coordinates modulo the record length which z3 decides on every path of rotate-slice-concatenate")
ASSUMPTIONS = [
    "match spans are arbitrary with s1<=e1<=e2<=e3<=s1+n, s1<n (constructing the state directly)",
    "feature parts: 0<=start<n, start<=end<start+n, strands symbolic in {-1,0,1}",
    "letters are opaque tags: the code under this obligation never inspects nucleotides (overhangs are given)",
]


def bounds(tier):
    return dict(n_max=tier_pick(tier, 10, 16), parts_max=2, chain_max=2)


TAGCHARS = "ABCDEFGHIJKLMNOPQRSTUVWXYZabcdefghijklmnopqrstuvwxyz0123456789"


def tags(n, base=0):
    """a record of n pairwise distinct (ASCII) letters"""
    return TAGCHARS[base: base + n]


def ob_fragment(ctx):
    st = ctx.stack
    P = ctx.P
    n, role, NP = P["n"], P["role"], P["parts"]
    mk = ctx.mk
    Mod, Vec = sliced_classes(st)
    s1 = mk.int("s1", 0, n - 1)
    d1 = mk.int("d1", 0, n)
    d2 = mk.int("d2", 0, n)
    d3 = mk.int("d3", 0, n)
    ctx.assume(d1 + d2 + d3 <= n)
    e1, e2, e3 = s1 + d1, s1 + d1 + d2, s1 + d1 + d2 + d3
    parts = mk_parts(ctx, "f", NP, n)
    ctx.assume(And([e - s < n for (s, e, _) in parts]))
    quals = {"label": ["feat"], "note": ["a", "b"], "plain": "text", "number": 3}
    ftype = P.get("ftype", "CDS")  # "source": provenance written by an earlier assembly, inherited like any feature
    feat = build_feature(st, parts, ftype, dict(quals, label=["feat"], note=["a", "b"]), fid="F1")
    data = tags(n)
    cls = Mod if role == "module" else Vec
    if P.get("history"):
        # the same entity already gave its fragment once, when the plasmid's map still carried another feature; the map
        # was then edited in place (a part re-annotated between two assemblies)
        old = build_feature(st, [(0, 1, 1)], "misc_feature", {"label": ["old"]}, fid="OLD")
        rec = st.record.CircularRecord(st.Seq(data), id="plasmid", features=[old])
        ent = cls(rec, st.Seq("AA"), st.Seq("CC"), module_spans(s1, e1, e2, e3))
        ent.target_sequence()
        rec.features[:] = [feat]
    else:
        rec = st.record.CircularRecord(st.Seq(data), id="plasmid", features=[feat])
        ent = cls(rec, st.Seq("AA"), st.Seq("CC"), module_spans(s1, e1, e2, e3))
    frag = ent.target_sequence()
    ctx.observe("frag", frag)
    if role == "module":
        a0, flen = s1, e2 - s1  # retained arc starts at s1
    else:
        a0, flen = e2, s1 + n - e2  # vector: from the start of group 3 round to group 1
    fs = sdata(frag.seq)
    ctx.require(Eq(slen(fs), flen), "fragment-length")
    tagcodes = SSeq.const(data)
    ctx.require(And([Implies(j < flen, Eq(sat(fs, j), tagcodes.get(mod(a0 + j, n)))) for j in range(n)]),
                "fragment-letters")
    inside = And([mod(ps - a0, n) + (pe - ps) <= flen for (ps, pe, _) in parts])
    empty_part = Or([Eq(pe, ps) for (ps, pe, _) in parts])
    # a zero-length part (a between-bases marker such as 9^10) exactly on an end of the fragment may be read on either
    # side of the cut; strictly inside the fragment it is inherited like any other part
    surely_inside = And([If(Eq(pe, ps), And(0 < mod(ps - a0, n), mod(ps - a0, n) < flen), mod(ps - a0, n) + (pe - ps) <= flen)
                         for (ps, pe, _) in parts])
    generated = [g for g in frag.features if g.type == "source" and g.id != "F1" and g.qualifiers.get("plasmid") == "plasmid"]
    ctx.require(len(generated) == 1, "generated-source-feature-count:%d" % len(generated))
    imgs = [g for g in frag.features if g is not generated[0]]
    ctx.require(len(imgs) <= 1, "feature-duplicated")
    ctx.witness("inherited" if imgs else "dropped")
    if not imgs:
        ctx.require(Or(Not(inside), empty_part), "feature-inside-the-fragment-was-dropped")
        ctx.require(Not(surely_inside), "feature-strictly-inside-the-fragment-was-dropped")
        return True
    g = imgs[0]
    ctx.require(Or(inside, empty_part), "feature-overlapping-a-discarded-region-was-kept")
    ctx.require(g.type == ftype and g.id == "F1" and quals_equal(g.qualifiers, quals), "type-or-qualifiers-changed")
    gp = parts_of(g)
    ctx.require(len(gp) == NP, "part-count-changed")
    for j, ((ps, pe, pst), (qs, qe, qst)) in enumerate(zip(parts, gp)):
        qs, qe = ival(qs), ival(qe)
        ctx.require(Eq(qe - qs, pe - ps), "part%d-length-changed" % j)
        ctx.require(strand_eq(qst, pst), "part%d-strand-changed" % j)
        ctx.require(Implies(pe > ps, And(qs >= 0, qe <= flen, Eq(mod(a0 + qs - ps, n), 0))),
                    "part%d-denotes-other-nucleotides" % j)
    ctx.witness("structure-crosses-origin", e3 > n)
    ctx.witness("feature-crosses-origin", parts[0][1] > n)
    return True


def ob_concat(ctx):
    """assembly-level transport: fragments with symbolic feature tables are concatenated and wrapped"""
    st = ctx.stack
    P = ctx.P
    m = P["m"]
    mk = ctx.mk
    Mod, Vec = stub_classes(st)
    O = ["AA", "CC", "GG", "TC"]
    lens = [5, 7, 4][: m] + [6]
    frs, specs = [], []
    for i in range(m + 1):
        L = lens[i]
        nparts = 1 + (i == P["two_parts_in"])
        parts = []
        for j in range(nparts):
            a = mk.int("e%d_p%d_s" % (i, j), 0, L)
            ln = mk.int("e%d_p%d_l" % (i, j), 0, L)
            stx = mk.int("e%d_p%d_st" % (i, j), -1, 1)
            ctx.assume(a + ln <= L)
            parts.append((a, a + ln, stx))
        quals = {"label": ["el%d" % i], "citation_free": ["yes"]}

        def make(i=i, L=L, parts=parts, quals=quals):
            rec = st.SeqRecord(st.Seq(tags(L, 20 * i)), id="frag%d" % i, features=[build_feature(st, parts, "gene", dict(quals), fid="G%d" % i)])
            return rec

        frs.append(make)
        specs.append((parts, quals, L))
    mods = [Mod(st.record.CircularRecord(st.Seq("ACGT"), id="m%d" % i), st.Seq(O[i]), st.Seq(O[i + 1]), frs[i]) for i in range(m)]
    vec = Vec(st.record.CircularRecord(st.Seq("ACGT"), id="vec"), st.Seq(O[m]), st.Seq(O[0]), frs[m])
    order = list(range(m))
    if P.get("reverse_args"):
        order.reverse()
    prod = vec.assemble(*[mods[i] for i in order])
    ctx.observe("prod", prod)
    total = sum(lens)
    ps = sdata(prod.seq)
    ctx.require(Eq(slen(ps), total), "product-length")
    feats = [f for f in prod.features if f.type != "source"]
    ctx.require(len(feats) == m + 1, "feature-count:%d" % len(feats))
    off = 0
    by_id = {f.id: f for f in feats}
    for i in range(m + 1):
        parts, quals, L = specs[i]
        g = by_id.get("G%d" % i)
        ctx.require(g is not None and g.type == "gene" and quals_equal(g.qualifiers, quals), "feature-lost-or-altered")
        gp = parts_of(g)
        ctx.require(len(gp) == len(parts), "part-count-changed")
        for (a, b, stx), (qa, qb, qst) in zip(parts, gp):
            ctx.require(And(Eq(ival(qa), a + off), Eq(ival(qb), b + off), strand_eq(qst, stx)), "feature-shifted-wrongly")
        ctx.require(And([Eq(sat(ps, off + j), code_of(tags(L, 20 * i)[j])) for j in range(L)]), "fragment-letters-moved")
        off += L
    return True


def obligations(tier, seed):
    obs = []
    nmax = tier_pick(tier, 10, 16)
    for n in range(2, nmax + 1):
        for role in ("module", "vector"):
            for parts in (1, 2):
                if parts == 2 and n > tier_pick(tier, 7, 11):
                    continue
                if tier == "quick" and parts == 2 and role == "vector" and n % 2:
                    continue
                obs.append(Ob("fragment of a %s n=%d parts=%d" % (role, n, parts), ob_fragment,
                              dict(n=n, role=role, parts=parts), samples=6, cost=n ** 2 * 20 ** parts,
                              expect_witness=("inherited", "dropped")))
                if parts == 1 and n in (5, 9, 13):
                    obs.append(Ob("fragment of a %s n=%d carrying an inherited source feature" % (role, n), ob_fragment,
                                  dict(n=n, role=role, parts=parts, ftype="source"), samples=6, cost=n ** 2 * 20,
                                  expect_witness=("inherited", "dropped")))
    for role in ("module", "vector"):
        for n in tier_pick(tier, (6,), (4, 9)):
            obs.append(Ob("fragment of a %s n=%d asked again after its map was edited in place" % (role, n), ob_fragment,
                          dict(n=n, role=role, parts=1, history=True), samples=6, cost=2 * n ** 2 * 20, group="history",
                          expect_witness=("inherited", "dropped")))
    for m in (1, 2):
        for two in range(m + 1):
            obs.append(Ob("concatenation m=%d (two-part feature in element %d)" % (m, two), ob_concat,
                          dict(m=m, two_parts_in=two), samples=6, cost=200))
    obs.append(Ob("concatenation m=2 reversed argument order", ob_concat, dict(m=2, two_parts_in=0, reverse_args=True),
                  samples=4, cost=200))
    return obs
