#!/usr/bin/env python3
"""Regenerate MANIFEST.json from the harness modules present under harness/ (development aid)."""
import importlib, json, os, sys
HERE = os.path.dirname(os.path.dirname(os.path.abspath(__file__)))
sys.path.insert(0, HERE)
props = [json.loads(l) for l in open(os.path.join(HERE, "properties.jsonl"))]
NA = {}
na_file = os.path.join(HERE, "tools", "not_applicable.json")
if os.path.exists(na_file):
    NA = json.load(open(na_file))
checks, na = [], []
for p in props:
    pid = p["id"]
    path = os.path.join(HERE, "harness", pid.lower() + ".py")
    if not os.path.exists(path) or pid in NA:
        na.append(dict(property_id=pid, reason=NA.get(pid, "check not built yet in this snapshot of /verif (solver-based harness planned, see DESIGN.md section 6)")))
        continue
    src = open(path).read()
    ns = {}
    # read the declarative constants without importing z3 etc.
    import ast
    tree = ast.parse(src)
    for node in tree.body:
        if isinstance(node, ast.Assign) and len(node.targets) == 1 and isinstance(node.targets[0], ast.Name):
            name = node.targets[0].id
            if name in ("LEVEL_TEXT", "LEVEL_NOTE", "LEVEL_NOTE_EXTRA", "TECHNIQUE", "DESIGN_REF"):
                ns[name] = ast.literal_eval(node.value)
    checks.append(dict(
        property_id=pid,
        quick_cmd="./check %s --tier quick" % pid,
        thorough_cmd="./check %s --tier thorough" % pid,
        evidence_file="evidence/%s.json" % pid,
        replay_cmd_template="./check %s --replay {path}" % pid,
        engine="symx",
        level_claimed=dict(category="other", text=ns.get("LEVEL_TEXT", ""), design_ref=ns.get("DESIGN_REF", "DESIGN.md section 6 (plan) and section 13 (as built), " + pid)),
        level_note=(ns.get("LEVEL_NOTE", "") + (" Also: " + ns["LEVEL_NOTE_EXTRA"] if ns.get("LEVEL_NOTE_EXTRA") else "")),
        technique=ns.get("TECHNIQUE", "bounded symbolic execution of the real Python source (symx) with z3 deciding every branch and assertion; counterexamples replayed on the real stack"),
    ))
man = dict(
    version=1,
    setup_cmd="./bootstrap.sh",
    hooks=dict(guard="MOCLO_VERIF", enable="none needed: the symbolic loader reads /repo's source as it is (MOCLO_VERIF is reserved and unused)",
               baseline_off_cmd="cd /repo && /venv/bin/python -m pytest -ra -q -p no:cacheprovider --timeout=900 --continue-on-collection-errors",
               source_commits=[], add_only=True),
    engines=[dict(name="symx", path="symx/", serves_properties=[c["property_id"] for c in checks],
                  kind_free_text="re-execution symbolic executor for Python: runs /repo's own source on proxy values (z3 terms) with SMT models of the Biopython/re boundary; z3 decides every branch and assertion within stated bounds; counterexamples are replayed on the real stack")],
    checks=checks,
    notes="Solver-based checking of the real code; see DESIGN.md. fix: commits in /repo are listed in known_findings.json ('fixed' entries).",
    not_applicable=na,
)
json.dump(man, open(os.path.join(HERE, "MANIFEST.json"), "w"), indent=1)
print("claimed", [c["property_id"] for c in checks], "na", [x["property_id"] for x in na])
