#!/bin/bash
# run every registered quick (or thorough) check in sequence; prints one summary line per check
TIER=${1:-quick}
cd "$(dirname "$0")/.."
for id in C01 C02 C03 C04 C05 C06 C07 C08 C09 C10 C11 C12 C13 C14 C15 C16 C17 C18 C19 C20; do
  s=$(date +%s)
  ./check $id --tier $TIER > /tmp/runall_$id.log 2>&1
  rc=$?
  e=$(date +%s)
  echo "$id rc=$rc $((e-s))s $(tail -1 /tmp/runall_$id.log)"
done
